// Driver for Frame.tla (C13): replays TLC-generated (frame sequence, junk, chunking) scenarios and
// random long streams against the real RpcPackageHandler.Read, driven by a transcription of getty's
// session.handleTCPPackage loop, and records one trace per scenario.
package main

import (
	"bytes"
	"encoding/binary"
	"encoding/json"
	"fmt"
	"math/rand"
	"reflect"
	"sort"
	"time"

	"seata.apache.org/seata-go/pkg/protocol/codec"
	"seata.apache.org/seata-go/pkg/protocol/message"
	"seata.apache.org/seata-go/pkg/remoting/getty"

	"verif/harness/common"
	"verif/harness/trace"
)

type shape struct {
	Hm   int `json:"hm"`
	Body int `json:"body"`
	// random scenarios only: the frame is written by the real Write for message number Kind built from Seed
	// (written.go); Hm and Body are the lengths Write produced
	Kind int   `json:"kind,omitempty"`
	Seed int64 `json:"seed,omitempty"`
}

type scenario struct {
	Frames []shape `json:"frames"`
	Junk   int     `json:"junk"`
	Cuts   []int   `json:"cuts"`
	// random scenarios only
	Rand bool `json:"rand,omitempty"`
}

// a frame to send: the message a correct reader must deliver plus its bytes from the independent encoder
type frame struct {
	msg   message.RpcMessage
	bytes []byte
	// tiny: the body is too short to be a message. What is delivered for it is not judged (no peer sends it);
	// it must be taken off the stream as one frame, without panic and without spinning.
	tiny bool
	// alone: for a frame from the real Write, what the real Read yields for exactly these bytes
	alone interface{}
}

type kv struct{ k, v string }

// independent encoder of the Seata v1 frame (written from the layout comment, not from Write)
func encodeFrame(id int32, typ byte, hm []kv, body []byte) []byte {
	var hmb []byte
	for _, e := range hm {
		hmb = binary.BigEndian.AppendUint16(hmb, uint16(len(e.k)))
		hmb = append(hmb, e.k...)
		hmb = binary.BigEndian.AppendUint16(hmb, uint16(len(e.v)))
		hmb = append(hmb, e.v...)
	}
	head := 16 + len(hmb)
	total := head + len(body)
	b := []byte{0xda, 0xda, 1}
	b = binary.BigEndian.AppendUint32(b, uint32(total))
	b = binary.BigEndian.AppendUint16(b, uint16(head))
	b = append(b, typ, 1, 0)
	b = binary.BigEndian.AppendUint32(b, uint32(id))
	b = append(b, hmb...)
	b = append(b, body...)
	return b
}

func str16(s string) []byte {
	b := binary.BigEndian.AppendUint16(nil, uint16(len(s)))
	return append(b, s...)
}

// body of exactly n bytes: a GlobalCommitRequest (type code 7): code(2) xid(str16) extra(str16)
func commitBody(n int, r *rand.Rand) ([]byte, interface{}) {
	if n < 6 {
		panic("body too short")
	}
	free := n - 6
	xl := free
	if free > 1 {
		xl = 1 + r.Intn(free)
	}
	xid := randText(r, xl)
	extra := randText(r, free-xl)
	b := []byte{0, 7}
	b = append(b, str16(xid)...)
	b = append(b, str16(extra)...)
	return b, message.GlobalCommitRequest{AbstractGlobalEndRequest: message.AbstractGlobalEndRequest{Xid: xid, ExtraData: []byte(extra)}}
}

func randText(r *rand.Rand, n int) string {
	const al = "abcdefghijklmnopqrstuvwxyz0123456789:-."
	b := make([]byte, n)
	for i := range b {
		b[i] = al[r.Intn(len(al))]
	}
	return string(b)
}

// head map of exactly n bytes from the shapes used in the spec: 0, 4 ("" -> ""), 5 ("" -> "x"  or "k" -> ""), 9
func headMap(n int, r *rand.Rand) []kv {
	switch n {
	case 0:
		return nil
	case 4:
		return []kv{{"", ""}}
	case 5:
		if r.Intn(2) == 0 {
			return []kv{{"", "x"}}
		}
		return []kv{{"k", ""}}
	case 9:
		if r.Intn(2) == 0 {
			return []kv{{"k", "vvvv"}}
		}
		return []kv{{"key", "vv"}}
	}
	// generic: one entry with key length a and value length n-4-a
	if n < 4 {
		panic("bad head map length")
	}
	a := r.Intn(n - 3)
	return []kv{{randText(r, a), randText(r, n-4-a)}}
}

func buildFrame(id int32, s shape, r *rand.Rand) frame {
	if s.Kind > 0 {
		if f, hm, body, ok := writeFrame(id, s.Hm, s.Kind, s.Seed); ok && hm == s.Hm && body == s.Body {
			return f
		}
		common.Fatal("written frame kind %d seed %d is not reproducible", s.Kind, s.Seed)
	}
	hm := headMap(s.Hm, r)
	m := map[string]string{}
	for _, e := range hm {
		m[e.k] = e.v
	}
	var (
		body []byte
		val  interface{}
		typ  byte
	)
	if s.Body == 0 {
		if r.Intn(2) == 0 {
			typ, val = byte(message.GettyRequestTypeHeartbeatRequest), message.HeartBeatMessagePing
		} else {
			typ, val = byte(message.GettyRequestTypeHeartbeatResponse), message.HeartBeatMessagePong
		}
	} else if s.Body < 6 {
		// a body too short to hold a message (1 byte: not even a type code): well-formed as a frame, delivered
		// with an empty body
		typ = byte(message.GettyRequestTypeRequestSync)
		body, val = make([]byte, s.Body), nil
	} else {
		typ = byte(message.GettyRequestTypeRequestSync)
		body, val = commitBody(s.Body, r)
	}
	return frame{
		msg:   message.RpcMessage{ID: id, Type: message.GettyRequestType(typ), Codec: 1, Compressor: 0, HeadMap: m, Body: val},
		bytes: encodeFrame(id, typ, hm, body),
		tiny:  s.Body > 0 && s.Body < 6,
	}
}

func sameMsg(got interface{}, want message.RpcMessage) bool {
	g, ok := got.(message.RpcMessage)
	if !ok {
		return false
	}
	if g.ID != want.ID || g.Type != want.Type || g.Codec != want.Codec || g.Compressor != want.Compressor {
		return false
	}
	if len(g.HeadMap) != len(want.HeadMap) {
		return false
	}
	for k, v := range want.HeadMap {
		if gv, ok := g.HeadMap[k]; !ok || gv != v {
			return false
		}
	}
	switch w := want.Body.(type) {
	case message.GlobalCommitRequest:
		gb, ok := g.Body.(message.GlobalCommitRequest)
		return ok && gb.Xid == w.Xid && bytes.Equal(gb.ExtraData, w.ExtraData)
	default:
		return reflect.DeepEqual(g.Body, want.Body)
	}
}

var junkKind = "plain"

const maxMsgLen = 102400 // default of getty session config (session.max-msg-len)

func bucket(b int) string {
	switch {
	case b == 1:
		return "1"
	case b < 7:
		return "2-6"
	case b < 16:
		return "7-15"
	default:
		return "16+"
	}
}

type readResult struct {
	pkg      interface{}
	n        int
	err      error
	panicked interface{}
}

var hangs int

// one Read call, as getty makes it; a panic and a call that does not return are observables
func safeRead(h *getty.RpcPackageHandler, buf []byte) (pkg interface{}, n int, err error, panicked interface{}, hung bool) {
	ch := make(chan readResult, 1)
	data := append([]byte(nil), buf...)
	go func() {
		var r readResult
		defer func() {
			if p := recover(); p != nil {
				r.panicked = p
			}
			ch <- r
		}()
		r.pkg, r.n, r.err = h.Read(nil, data)
	}()
	select {
	case r := <-ch:
		return r.pkg, r.n, r.err, r.panicked, false
	case <-time.After(3 * time.Second):
		hangs++ // the goroutine is lost (it spins); bound the damage in replay()
		return nil, 0, nil, nil, true
	}
}

// transcription of session.handleTCPPackage (dubbo-getty v1.5.0 session.go:654-724)
func run(t *trace.T, frames []frame, junk []byte, cuts []int) {
	h := &getty.RpcPackageHandler{}
	var stream []byte
	for _, f := range frames {
		stream = append(stream, f.bytes...)
	}
	stream = append(stream, junk...)
	var buf []byte
	out := 0
	off := 0
	exit := false
	sum := 0
	for _, c := range cuts {
		sum += c
	}
	if sum < len(stream) {
		// the scenario ended early because the specified reader closed the session on junk; the
		// real reader may still be waiting: the rest of the stream arrives as one more chunk
		cuts = append(append([]int(nil), cuts...), len(stream)-sum)
	}
	for _, c := range cuts {
		if exit {
			break
		}
		t.Add("Recv", "c", c)
		buf = append(buf, stream[off:off+c]...)
		off += c
		for len(buf) > 0 {
			pkg, n, err, pan, hung := safeRead(h, buf)
			b := len(buf)
			region := "frame"
			if out >= len(frames) {
				region = "junk-" + junkKind
			}
			sig := fmt.Sprintf("%s,b=%s", region, bucket(b))
			if hung {
				t.Add("Hang", "sig", sig)
				exit = true
				break
			}
			if pan != nil {
				t.Add("Panic", "sig", sig, "what", fmt.Sprint(pan))
				exit = true
				break
			}
			if err == nil && n > maxMsgLen {
				err = fmt.Errorf("pkgLen %d > session max message len %d", n, maxMsgLen)
			}
			if err != nil {
				t.Add("Parse", "res", "err", "cn", 0, "eq", true, "sig", sig)
				exit = true
				break
			}
			if pkg == nil {
				t.Add("Parse", "res", "need", "cn", 0, "eq", true, "sig", sig)
				break
			}
			eq := out < len(frames) && (frames[out].tiny || sameMsg(pkg, frames[out].msg))
			if out < len(frames) && frames[out].alone != nil {
				eq = reflect.DeepEqual(pkg, frames[out].alone)
			}
			t.Add("Parse", "res", "msg", "cn", n, "eq", eq, "sig", sig)
			out++
			if n <= 0 || n > len(buf) {
				// the real loop would spin on the same bytes (n = 0) or slice out of range
				t.Add("Spin", "sig", sig)
				exit = true
				break
			}
			buf = buf[n:]
		}
	}
	t.Add("End", "out", out, "sig", "end")
}

// Write/Read round trip of a head map through the real Write and Read
func roundTrip(t *trace.T, hm map[string]string, id int32) {
	h := &getty.RpcPackageHandler{}
	msg := message.RpcMessage{ID: id, Type: message.GettyRequestTypeHeartbeatRequest, Codec: 1, HeadMap: hm, Body: message.HeartBeatMessagePing}
	cls := "hm"
	keys := make([]string, 0, len(hm))
	for k := range hm {
		keys = append(keys, k)
	}
	sort.Strings(keys)
	for _, k := range keys {
		ke, ve := "k", "v"
		if k == "" {
			ke = "emptykey"
		}
		if hm[k] == "" {
			ve = "emptyvalue"
		}
		cls += ":" + ke + "/" + ve
	}
	eq := func() (ok bool) {
		defer func() {
			if r := recover(); r != nil {
				ok = false
			}
		}()
		b, err := h.Write(nil, msg)
		if err != nil {
			return false
		}
		pkg, n, err := h.Read(nil, b)
		if err != nil || n != len(b) {
			return false
		}
		return sameMsg(pkg, msg)
	}()
	t.Add("RoundTrip", "eq", eq, "sig", cls)
}

func main() {
	o := common.Parse()
	codec.Init()
	w, err := trace.NewWriter(o.Out)
	if err != nil {
		common.Fatal("%v", err)
	}
	idx := 0
	if o.Scenarios != "" {
		raws, err := trace.ReadScenarios(o.Scenarios)
		if err != nil {
			common.Fatal("%v", err)
		}
		for _, raw := range raws {
			i := idx
			idx++
			if !o.Want(i) {
				continue
			}
			var sc scenario
			if err := json.Unmarshal(raw, &sc); err != nil {
				common.Fatal("scenario %d: %v", i, err)
			}
			r := o.Rand(int64(i))
			replay(w, i, sc, r)
		}
	}
	// random long streams and random head maps: the data dimension TLC abstracts
	nrand := 300
	if o.Thorough() {
		nrand = 3000
	}
	for j := 0; j < nrand; j++ {
		i := idx
		idx++
		if !o.Want(i) {
			continue
		}
		r := o.Rand(int64(1_000_000 + j))
		sc := scenario{Rand: true}
		nf := 1 + r.Intn(6)
		for f := 0; f < nf; f++ {
			s := shape{Hm: 0, Body: 0}
			if r.Intn(3) > 0 {
				s.Hm = 4 + r.Intn(60)
			}
			if r.Intn(4) > 0 {
				s.Body = 6 + r.Intn(300)
			}
			if j%2 == 1 && r.Intn(3) > 0 {
				// a frame from the real Write (ids are reassigned in replay: the id is not part of the lengths)
				kind, seed := 1+r.Intn(nWrittenKinds), r.Int63()
				if _, hm, body, ok := writeFrame(1, s.Hm, kind, seed); ok {
					s = shape{Hm: hm, Body: body, Kind: kind, Seed: seed}
				}
			}
			sc.Frames = append(sc.Frames, s)
		}
		if r.Intn(4) == 0 {
			sc.Junk = 1 + r.Intn(20)
		}
		total := sc.Junk
		for _, s := range sc.Frames {
			total += 16 + s.Hm + s.Body
		}
		rem := total
		for rem > 0 {
			c := 1 + r.Intn(rem)
			if r.Intn(2) == 0 && rem > 20 {
				c = 1 + r.Intn(20)
			}
			sc.Cuts = append(sc.Cuts, c)
			rem -= c
		}
		replay(w, i, sc, r)
	}
	if err := w.Close(); err != nil {
		common.Fatal("%v", err)
	}
	fmt.Printf("DRIVER-OK traces=%d scenarios=%d\n", w.Count(), idx)
}

func replay(w *trace.Writer, i int, sc scenario, r *rand.Rand) {
	t := w.Begin(map[string]interface{}{"i": i, "sc": sc}, fmt.Sprintf("frames=%d,junk=%d,cuts=%d", len(sc.Frames), sc.Junk, len(sc.Cuts)))
	shapes := make([]interface{}, 0, len(sc.Frames))
	var frames []frame
	for k, s := range sc.Frames {
		frames = append(frames, buildFrame(int32(1+r.Intn(1<<30))+int32(k), s, r))
		shapes = append(shapes, map[string]int{"hm": s.Hm, "body": s.Body})
	}
	junk := make([]byte, sc.Junk)
	for k := range junk {
		junk[k] = byte(r.Intn(256))
	}
	if len(junk) > 0 && junk[0] == 0xda {
		junk[0] = 0x11
	}
	junkKind = "plain"
	if len(junk) >= 16 && r.Intn(2) == 0 && hangs < 3 {
		// junk that starts with the magic but whose header lengths are inconsistent
		junkKind = "badhead"
		total, head := uint32(len(junk)), uint16(0)
		switch r.Intn(3) {
		case 0: // head length shorter than the fixed header
			head = uint16(r.Intn(16))
		case 1: // head length beyond the total length
			total = 16
			head = uint16(17 + r.Intn(60000))
		case 2: // total shorter than the fixed header
			total = uint32(r.Intn(16))
			head = 16
		}
		junk[0], junk[1], junk[2] = 0xda, 0xda, 1
		binary.BigEndian.PutUint32(junk[3:], total)
		binary.BigEndian.PutUint16(junk[7:], head)
		junk[9] = 0
	}
	t.Add("Start", "frames", shapes, "junk", sc.Junk, "sig", "start")
	// head-map round trips for the head maps of this scenario plus the corner cases
	if i%50 == 0 {
		roundTrip(t, map[string]string{"": ""}, 7)
		roundTrip(t, map[string]string{"": "x"}, 8)
		roundTrip(t, map[string]string{"k": ""}, 9)
		roundTrip(t, map[string]string{"k": "v", "k2": "vv"}, 10)
		roundTrip(t, map[string]string{"键": "值值"}, 11)
	}
	for _, f := range frames {
		if len(f.msg.HeadMap) > 0 && r.Intn(4) == 0 {
			roundTrip(t, f.msg.HeadMap, f.msg.ID)
		}
	}
	run(t, frames, junk, sc.Cuts)
	t.Close()
}
