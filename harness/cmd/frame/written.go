package main

// Frames produced by the real RpcPackageHandler.Write for messages of every family the client sends or receives.
// The hand-built frames of buildFrame carry one body type only (GlobalCommitRequest, from the independent
// encoder); a body whose encoding is not self-delimiting (its decoder reads on into the bytes of the next frame)
// shows only when real messages of other types follow each other in one read buffer.  What a correct reader must
// deliver for a written frame is what it delivers for that frame alone (one Read on exactly its bytes): the
// messages yielded must not depend on how the stream was cut.  (That a lone frame decodes to the message it was
// written for is C12's subject.)

import (
	"encoding/binary"
	"math/rand"
	"time"

	"seata.apache.org/seata-go/pkg/protocol/branch"
	"seata.apache.org/seata-go/pkg/protocol/message"
	"seata.apache.org/seata-go/pkg/remoting/getty"
	serrors "seata.apache.org/seata-go/pkg/util/errors"
)

const nWrittenKinds = 24

func optText(r *rand.Rand, max int) string {
	if r.Intn(2) == 0 {
		return "" // empty fields (above all trailing ones) are the interesting case
	}
	return randText(r, 1+r.Intn(max))
}

func optBytes(r *rand.Rand, max int) []byte {
	s := optText(r, max)
	if s == "" {
		return nil
	}
	return []byte(s)
}

func result(r *rand.Rand) message.AbstractResultMessage {
	if r.Intn(3) == 0 {
		return message.AbstractResultMessage{ResultCode: message.ResultCodeFailed, Msg: optText(r, 40)}
	}
	return message.AbstractResultMessage{ResultCode: message.ResultCodeSuccess}
}

func txResp(r *rand.Rand) message.AbstractTransactionResponse {
	return message.AbstractTransactionResponse{AbstractResultMessage: result(r), TransactionErrorCode: serrors.TransactionErrorCode(r.Intn(20))}
}

func branchEndReq(r *rand.Rand) message.AbstractBranchEndRequest {
	return message.AbstractBranchEndRequest{Xid: optText(r, 40), BranchId: r.Int63(), BranchType: branch.BranchType(r.Intn(4)),
		ResourceId: optText(r, 40), ApplicationData: optBytes(r, 60)}
}

func branchEndResp(r *rand.Rand) message.AbstractBranchEndResponse {
	return message.AbstractBranchEndResponse{AbstractTransactionResponse: txResp(r), Xid: optText(r, 40), BranchId: r.Int63(),
		BranchStatus: branch.BranchStatus(r.Intn(12))}
}

func globalEndReq(r *rand.Rand) message.AbstractGlobalEndRequest {
	return message.AbstractGlobalEndRequest{Xid: optText(r, 40), ExtraData: optBytes(r, 30)}
}

func globalEndResp(r *rand.Rand) message.AbstractGlobalEndResponse {
	return message.AbstractGlobalEndResponse{AbstractTransactionResponse: txResp(r), GlobalStatus: message.GlobalStatus(r.Intn(16))}
}

func identReq(r *rand.Rand) message.AbstractIdentifyRequest {
	return message.AbstractIdentifyRequest{Version: optText(r, 8), ApplicationId: optText(r, 20), TransactionServiceGroup: optText(r, 20), ExtraData: optBytes(r, 30)}
}

func identResp(r *rand.Rand) message.AbstractIdentifyResponse {
	return message.AbstractIdentifyResponse{AbstractResultMessage: result(r), Version: optText(r, 8), ExtraData: optBytes(r, 30), Identified: r.Intn(2) == 0}
}

// writtenMessage returns message number kind (1..nWrittenKinds) with random field values and its frame type
func writtenMessage(kind int, r *rand.Rand) (interface{}, message.GettyRequestType) {
	req, resp := message.GettyRequestTypeRequestSync, message.GettyRequestTypeResponse
	switch kind {
	case 1:
		return message.GlobalBeginRequest{Timeout: time.Duration(r.Intn(100000)) * time.Millisecond, TransactionName: optText(r, 30)}, req
	case 2:
		return message.GlobalBeginResponse{AbstractTransactionResponse: txResp(r), Xid: optText(r, 40), ExtraData: optBytes(r, 30)}, resp
	case 3:
		return message.GlobalCommitRequest{AbstractGlobalEndRequest: globalEndReq(r)}, req
	case 4:
		return message.GlobalCommitResponse{AbstractGlobalEndResponse: globalEndResp(r)}, resp
	case 5:
		return message.GlobalRollbackRequest{AbstractGlobalEndRequest: globalEndReq(r)}, req
	case 6:
		return message.GlobalRollbackResponse{AbstractGlobalEndResponse: globalEndResp(r)}, resp
	case 7:
		return message.GlobalStatusRequest{AbstractGlobalEndRequest: globalEndReq(r)}, req
	case 8:
		return message.GlobalStatusResponse{AbstractGlobalEndResponse: globalEndResp(r)}, resp
	case 9:
		return message.GlobalReportRequest{AbstractGlobalEndRequest: globalEndReq(r), GlobalStatus: message.GlobalStatus(r.Intn(16))}, req
	case 10:
		return message.GlobalReportResponse{AbstractGlobalEndResponse: globalEndResp(r)}, resp
	case 11:
		return message.GlobalLockQueryRequest{BranchRegisterRequest: message.BranchRegisterRequest{Xid: optText(r, 40), BranchType: branch.BranchType(r.Intn(4)),
			ResourceId: optText(r, 40), LockKey: optText(r, 80), ApplicationData: optBytes(r, 60)}}, req
	case 12:
		return message.GlobalLockQueryResponse{AbstractTransactionResponse: txResp(r), Lockable: r.Intn(2) == 0}, resp
	case 13:
		return message.BranchRegisterRequest{Xid: optText(r, 40), BranchType: branch.BranchType(r.Intn(4)), ResourceId: optText(r, 40),
			LockKey: optText(r, 80), ApplicationData: optBytes(r, 60)}, req
	case 14:
		return message.BranchRegisterResponse{AbstractTransactionResponse: txResp(r), BranchId: r.Int63()}, resp
	case 15:
		return message.BranchReportRequest{Xid: optText(r, 40), BranchId: r.Int63(), ResourceId: optText(r, 40), Status: branch.BranchStatus(r.Intn(12)),
			ApplicationData: optBytes(r, 60), BranchType: branch.BranchType(r.Intn(4))}, req
	case 16:
		return message.BranchReportResponse{AbstractTransactionResponse: txResp(r)}, resp
	case 17:
		return message.BranchCommitRequest{AbstractBranchEndRequest: branchEndReq(r)}, req
	case 18:
		return message.BranchCommitResponse{AbstractBranchEndResponse: branchEndResp(r)}, resp
	case 19:
		return message.BranchRollbackRequest{AbstractBranchEndRequest: branchEndReq(r)}, req
	case 20:
		return message.BranchRollbackResponse{AbstractBranchEndResponse: branchEndResp(r)}, resp
	case 21:
		return message.RegisterTMRequest{AbstractIdentifyRequest: identReq(r)}, req
	case 22:
		return message.RegisterTMResponse{AbstractIdentifyResponse: identResp(r)}, resp
	case 23:
		return message.RegisterRMRequest{AbstractIdentifyRequest: identReq(r), ResourceIds: optText(r, 60)}, req
	default:
		return message.RegisterRMResponse{AbstractIdentifyResponse: identResp(r)}, resp
	}
}

// writeFrame: the frame the real Write produces for (kind, seed), and what the real Read yields for it alone.
// ok=false when Write fails or the lone frame is not read back as one whole message (then the scenario uses a
// hand-built frame instead; that defect is C12's to report).
func writeFrame(id int32, hmLen int, kind int, seed int64) (f frame, hm, body int, ok bool) {
	defer func() {
		if p := recover(); p != nil {
			ok = false
		}
	}()
	r := rand.New(rand.NewSource(seed))
	m := map[string]string{}
	if hmLen >= 4 {
		for _, e := range headMap(hmLen, r) {
			m[e.k] = e.v
		}
	}
	val, typ := writtenMessage(kind, r)
	msg := message.RpcMessage{ID: id, Type: typ, Codec: 1, Compressor: 0, HeadMap: m, Body: val}
	h := &getty.RpcPackageHandler{}
	b, err := h.Write(nil, msg)
	if err != nil || len(b) < 16 {
		return frame{}, 0, 0, false
	}
	total := int(binary.BigEndian.Uint32(b[3:7]))
	head := int(binary.BigEndian.Uint16(b[7:9]))
	if total != len(b) || head < 16 || head > total {
		return frame{}, 0, 0, false
	}
	alone, n, err := h.Read(nil, append([]byte(nil), b...))
	if err != nil || alone == nil || n != len(b) {
		return frame{}, 0, 0, false
	}
	return frame{msg: msg, bytes: b, alone: alone}, head - 16, total - head, true
}
