// Driver for TM.tla (C04, C07): replays TLC-generated scope trees, coordinator reply scripts and
// cancellation points against the real tm.WithGlobalTx, with the in-process coordinator stand-in
// behind a fake getty session, and records one trace per scenario.
package main

import (
	"context"
	"encoding/json"
	"errors"
	"fmt"
	"net/http"
	"net/http/httptest"
	"strings"
	"sync"
	"time"

	"dubbo.apache.org/dubbo-go/v3/protocol"
	"dubbo.apache.org/dubbo-go/v3/protocol/invocation"
	"github.com/gin-gonic/gin"
	"google.golang.org/grpc"
	"google.golang.org/grpc/metadata"

	"seata.apache.org/seata-go/pkg/constant"
	sdubbo "seata.apache.org/seata-go/pkg/integration/dubbo"
	sgin "seata.apache.org/seata-go/pkg/integration/gin"
	sgrpc "seata.apache.org/seata-go/pkg/integration/grpc"
	"seata.apache.org/seata-go/pkg/protocol/message"
	"seata.apache.org/seata-go/pkg/tm"

	"verif/harness/common"
	"verif/harness/tc"
	"verif/harness/trace"
)

type step struct {
	Op   string `json:"op"`
	Mode string `json:"mode,omitempty"`
	Kind string `json:"kind,omitempty"`
	R    string `json:"r,omitempty"`
	O    string `json:"o,omitempty"`
}

type scenario struct {
	Steps  []step `json:"steps"`
	RetryC int    `json:"retryc"`
	RetryR int    `json:"retryr"`
}

var modes = map[string]tm.Propagation{
	"Required": tm.Required, "RequiresNew": tm.RequiresNew, "NotSupported": tm.NotSupported,
	"Supports": tm.Supports, "Never": tm.Never, "Mandatory": tm.Mandatory,
}

type runner struct {
	i      int
	sc     scenario
	pos    int
	t      *trace.T
	ctx    context.Context // the context the top-level scope is run with (plain, or a seata context the caller made)
	base   context.Context // the plain cancellable context underneath: what "fresh" child contexts are derived from
	cancel context.CancelFunc
	xids   map[string]int
	nxid   int
	names  int
	seed   int64
	coord  *tc.TC
	// coordinates for signatures
	lastOutcome string
	lastP2      string
	sent        int
	// again: a second top-level scope run on the same caller-made context after this scenario's tree has
	// returned (its own trace: every top-level scope is a behaviour from Init, whatever the context saw before)
	again *runner
}

var (
	regMu   sync.Mutex
	byName  = map[string]*runner{} // scope name prefix -> runner
	byXid   = map[string]*runner{}
	session *tc.Session
)

func (r *runner) peek() *step {
	if r.pos < len(r.sc.Steps) {
		return &r.sc.Steps[r.pos]
	}
	return nil
}

// consumeCancels fires the cancellation the scenario places right after the step just consumed
func (r *runner) consumeCancels() {
	for r.pos < len(r.sc.Steps) && r.sc.Steps[r.pos].Op == "cancel" {
		r.pos++
		r.t.Add("Cancel", "sig", "cancel")
		r.cancel()
	}
}

func (r *runner) abs(xid string) int {
	if xid == "" {
		return 0
	}
	if v, ok := r.xids[xid]; ok {
		return v
	}
	return -1 // an xid the coordinator never issued to this scenario
}

func (r *runner) name() string {
	r.names++
	return fmt.Sprintf("sc%d-%d", r.i, r.names)
}

// the coordinator's script: called synchronously inside the client's WritePkg
func script(kind string, m tc.Msg) (tc.Reply, bool) {
	switch req := m.Rpc.Body.(type) {
	case message.GlobalBeginRequest:
		regMu.Lock()
		r := byName[strings.SplitN(req.TransactionName, "-", 2)[0]]
		regMu.Unlock()
		if r == nil {
			return tc.Reply{}, false
		}
		r.t.Add("BeginReq", "sig", "begin")
		rep := "ok"
		if s := r.peek(); s != nil && s.Op == "beginrep" {
			rep = s.R
			r.pos++
		}
		switch rep {
		case "ok":
			r.nxid++
			xid := fmt.Sprintf("10.0.0.1:8091:%d%04d", r.i+1, r.nxid)
			r.xids[xid] = r.nxid
			regMu.Lock()
			byXid[xid] = r
			regMu.Unlock()
			r.t.Add("BeginRep", "r", "ok", "sig", "begin")
			r.consumeCancels()
			return tc.Reply{Body: message.GlobalBeginResponse{AbstractTransactionResponse: message.AbstractTransactionResponse{
				AbstractResultMessage: message.AbstractResultMessage{ResultCode: message.ResultCodeSuccess}}, Xid: xid}}, true
		case "fail":
			r.t.Add("BeginRep", "r", "fail", "sig", "begin")
			r.consumeCancels()
			return tc.Reply{Body: message.GlobalBeginResponse{AbstractTransactionResponse: message.AbstractTransactionResponse{
				AbstractResultMessage: tc.FailResult("begin refused")}}}, true
		default:
			r.t.Add("BeginRep", "r", "neterr", "sig", "begin")
			r.consumeCancels()
			return tc.Reply{NetErr: errors.New("write tcp: connection reset by peer")}, true
		}
	case message.GlobalCommitRequest:
		return p2("commit", req.Xid)
	case message.GlobalRollbackRequest:
		return p2("rollback", req.Xid)
	}
	return tc.Reply{}, false
}

func p2(kind, xid string) (tc.Reply, bool) {
	regMu.Lock()
	r := byXid[xid]
	regMu.Unlock()
	if r == nil {
		return tc.Reply{}, false
	}
	r.t.Add("P2Req", "kind", kind, "xid", r.abs(xid), "sig", "p2:"+kind)
	rep := "ok"
	if s := r.peek(); s != nil && s.Op == "p2rep" {
		rep = s.R
		r.pos++
	}
	r.lastP2 = rep
	r.sent++
	r.t.Add("P2Rep", "r", rep, "sig", "p2:"+kind)
	r.consumeCancels()
	if rep == "neterr" {
		return tc.Reply{NetErr: errors.New("write tcp: broken pipe")}, true
	}
	okres := message.AbstractTransactionResponse{AbstractResultMessage: message.AbstractResultMessage{ResultCode: message.ResultCodeSuccess}}
	if kind == "commit" {
		return tc.Reply{Body: message.GlobalCommitResponse{AbstractGlobalEndResponse: message.AbstractGlobalEndResponse{
			AbstractTransactionResponse: okres, GlobalStatus: message.GlobalStatusCommitted}}}, true
	}
	return tc.Reply{Body: message.GlobalRollbackResponse{AbstractGlobalEndResponse: message.AbstractGlobalEndResponse{
		AbstractTransactionResponse: okres, GlobalStatus: message.GlobalStatusRollbacked}}}, true
}

// childCtx builds the context a child scope runs with.
//   shared: the parent's context object (local call)
//   fresh : a new context that carries only the xid, produced by one of the integrations
func (r *runner) childCtx(parent context.Context, kind string, variant int, run func(ctx context.Context)) string {
	if kind == "shared" {
		run(parent)
		return "shared"
	}
	xid := tm.GetXID(parent)
	switch variant % 4 {
	case 1: // gRPC client + server interceptors, metadata carried over by hand
		var outMD metadata.MD
		invoker := func(ctx context.Context, method string, req, reply interface{}, cc *grpc.ClientConn, opts ...grpc.CallOption) error {
			outMD, _ = metadata.FromOutgoingContext(ctx)
			return nil
		}
		callCtx := parent
		if tm.IsSeataContext(parent) && variant%16 >= 8 {
			// the caller forwards metadata it received itself (a stale xid of somebody else's transaction is in the
			// outgoing metadata already): the callee must still see the caller's own transaction, nothing else
			callCtx = metadata.AppendToOutgoingContext(parent, constant.XidKey, "10.9.9.9:8091:777")
		}
		_ = sgrpc.ClientTransactionInterceptor(callCtx, "/svc/m", nil, nil, nil, invoker)
		in := metadata.NewIncomingContext(r.base, outMD)
		_, _ = sgrpc.ServerTransactionInterceptor(in, nil, &grpc.UnaryServerInfo{FullMethod: "/svc/m"}, func(ctx context.Context, req interface{}) (interface{}, error) {
			run(ctx)
			return nil, nil
		})
		return "fresh-grpc"
	case 2: // gin middleware under httptest (the middleware refuses requests without an xid header)
		if xid == "" {
			break
		}
		gin.SetMode(gin.ReleaseMode)
		e := gin.New()
		// gin's default is false (a *gin.Context then answers Value() from its own keys only); the middleware's note
		// recommends true: the handler below takes the request's context, which must carry the xid either way
		e.ContextWithFallback = variant%32 >= 16
		e.Use(sgin.TransactionMiddleware())
		ran := false
		e.GET("/x", func(c *gin.Context) {
			ran = true
			// the request context carries the seata context; make it cancellable like the scenario's root
			ctx, cancel := context.WithCancel(c.Request.Context())
			defer cancel()
			go func() {
				select {
				case <-r.base.Done():
					cancel()
				case <-ctx.Done():
				}
			}()
			run(ctx)
		})
		req := httptest.NewRequest(http.MethodGet, "/x", nil)
		hdr := constant.XidKey
		if variant%8 >= 4 {
			hdr = constant.XidKeyLowercase
		}
		req.Header.Set(hdr, xid)
		e.ServeHTTP(httptest.NewRecorder(), req)
		if ran {
			return "fresh-gin"
		}
		r.t.Add("Lost", "sig", "gin")
		return "fresh-gin"
	case 3: // dubbo filter: consumer side puts the xid into the attachments, provider side reads it
		f := sdubbo.GetDubboTransactionFilter()
		if xid == "" && variant%16 >= 8 {
			// an outbound call whose invocation already carries an xid (attachments forwarded from an inbound
			// request) made from a scope that runs without a transaction: whatever the filter does for the
			// callee, the caller's own context must stay as it is (the events after this one show it)
			pre := map[string]interface{}{constant.SeataXidKey: "10.9.9.9:8091:777", constant.XidKey: "10.9.9.9:8091:777"}
			f.Invoke(parent, &stubInvoker{fn: func(ctx context.Context, inv protocol.Invocation) {}}, invocation.NewRPCInvocation("m", nil, pre))
		}
		att := map[string]interface{}{}
		inv1 := invocation.NewRPCInvocation("m", nil, att)
		f.Invoke(parent, &stubInvoker{fn: func(ctx context.Context, inv protocol.Invocation) {}}, inv1)
		// what travels: the attachments
		carried := map[string]interface{}{}
		for k, v := range inv1.Attachments() {
			carried[k] = v
		}
		if variant%8 >= 4 {
			// a Java peer sends only TX_XID
			delete(carried, constant.SeataXidKey)
		}
		// the spellings peers use for the attachment key: as sent, lower case (HTTP/2 based protocols), and the
		// string-slice form the triple protocol hands to the provider
		switch (variant / 16) % 4 {
		case 1:
			for _, k := range []string{constant.SeataXidKey, constant.XidKey} {
				if v, ok := carried[k]; ok {
					delete(carried, k)
					carried[strings.ToLower(k)] = v
				}
			}
		case 2:
			for _, k := range []string{constant.SeataXidKey, constant.XidKey} {
				if v, ok := carried[k]; ok {
					delete(carried, k)
					carried[strings.ToLower(k)] = []string{fmt.Sprint(v)}
				}
			}
		}
		inv2 := invocation.NewRPCInvocation("m", nil, carried)
		f.Invoke(r.base, &stubInvoker{fn: func(ctx context.Context, inv protocol.Invocation) { run(ctx) }}, inv2)
		return "fresh-dubbo"
	}
	ctx := r.base
	if xid != "" {
		ctx = tm.InitSeataContext(r.base)
		tm.SetXID(ctx, xid)
	}
	run(ctx)
	return "fresh-plain"
}

type stubInvoker struct {
	protocol.BaseInvoker
	fn func(ctx context.Context, inv protocol.Invocation)
}

func (s *stubInvoker) Invoke(ctx context.Context, inv protocol.Invocation) protocol.Result {
	s.fn(ctx, inv)
	return &protocol.RPCResult{}
}

func roleName(ctx context.Context) string {
	p := tm.GetTxRole(ctx)
	if p == nil {
		return "none"
	}
	return p.String()
}

// scope runs one WithGlobalTx scope (and, recursively, its children)
func (r *runner) scope(parent context.Context, st step, depth int) {
	name := r.name()
	variant := int(r.seed+int64(r.i)*7+int64(r.names)*3) & 0x7fffffff
	sig := fmt.Sprintf("%s/%s/d%d", st.Mode, st.Kind, depth)
	r.t.Add("Enter", "mode", st.Mode, "kind", st.Kind, "sig", sig)
	r.consumeCancels()
	ran := false
	r.lastOutcome, r.lastP2, r.sent = "notrun", "none", 0
	kind := st.Kind
	if depth == 1 && tm.IsSeataContext(r.ctx) {
		// the caller made the seata context itself and keeps it: its top-level scopes run on that very context
		// (otherwise a "fresh" top-level scope arrives through one of the integrations without an xid)
		kind = "shared"
	}
	r.childCtx(parent, kind, variant, func(ctx context.Context) {
		ran = true
		v := func() (v string) {
			defer func() {
				if p := recover(); p != nil {
					v = "panic"
				}
			}()
			err := tm.WithGlobalTx(ctx, &tm.GtxConfig{Name: name, Propagation: modes[st.Mode], Timeout: 30 * time.Second},
				func(c context.Context) error {
					r.t.Add("Callback", "xid", r.abs(tm.GetXID(c)), "sig", sig)
					for {
						s := r.peek()
						if s == nil {
							return nil
						}
						switch s.Op {
						case "enter":
							r.pos++
							r.scope(c, *s, depth+1)
							// what the enclosing scope sees of its own transaction after the child returned
							r.t.Add("After", "xid", r.abs(tm.GetXID(c)), "role", roleName(c),
								"nameok", tm.GetTxName(c) == name, "sig", sig+">"+s.Mode+"/"+s.Kind)
						case "leave":
							r.pos++
							r.lastOutcome = s.O
							r.lastP2, r.sent = "none", 0
							r.t.Add("Leave", "o", s.O, "sig", sig)
							r.consumeCancels()
							switch s.O {
							case "nil":
								return nil
							case "err":
								return errors.New("business failed")
							default:
								panic("business panic")
							}
						default:
							// the scenario expected the coordinator or nobody to move: the callback was not
							// supposed to run here; end it
							return nil
						}
					}
				})
			if err != nil {
				return "err"
			}
			return "nil"
		}()
		c := 0
		if r.ctx.Err() != nil {
			c = 1
		}
		r.t.Add("Return", "v", v, "sig", fmt.Sprintf("%s/o=%s/cancelled=%d/lastp2=%s/sent=%d", sig, r.lastOutcome, c, r.lastP2, min(r.sent, 1)))
	})
	if !ran {
		r.t.Add("Lost", "sig", sig)
	}
}

func (r *runner) run() {
	r.consumeCancels()
	s := r.peek()
	if s == nil || s.Op != "enter" {
		r.t.Add("BadScenario")
		return
	}
	r.pos++
	r.scope(r.ctx, *s, 1)
	r.t.Add("End", "sig", "end")
}

func main() {
	o := common.Parse()
	cfg := tc.DefaultConfig()
	cfg.LoadBalance = "RandomLoadBalance"
	tc.InitClient(cfg)
	coord := tc.NewTC("10.0.0.1:8091")
	coord.Script = script
	session = coord.OpenSession("s1")
	time.Sleep(50 * time.Millisecond) // the RegisterTM the client sends on open

	raws, err := trace.ReadScenarios(o.Scenarios)
	if err != nil {
		common.Fatal("%v", err)
	}
	w, err := trace.NewWriter(o.Out)
	if err != nil {
		common.Fatal("%v", err)
	}
	byRetry := map[[2]int][]*runner{}
	var order [][2]int
	for i, raw := range raws {
		if !o.Want(i) {
			continue
		}
		var sc scenario
		if err := json.Unmarshal(raw, &sc); err != nil {
			common.Fatal("scenario %d: %v", i, err)
		}
		ctx, cancel := context.WithCancel(context.Background())
		cls := classOf(sc)
		cancels := false
		for _, st := range sc.Steps {
			if st.Op == "cancel" {
				cancels = true
			}
		}
		base := ctx
		if i%2 == 1 {
			// the caller made the seata context itself (a worker that keeps one context for its whole life)
			ctx = tm.InitSeataContext(ctx)
		}
		r := &runner{i: i, sc: sc, ctx: ctx, base: base, cancel: cancel, xids: map[string]int{}, seed: o.Seed, coord: coord}
		r.t = w.Begin(map[string]interface{}{"i": i, "sc": sc}, cls)
		r.t.Add("Start", "retryc", sc.RetryC, "retryr", sc.RetryR, "sig", "start")
		byName[fmt.Sprintf("sc%d", i)] = r
		if i%2 == 1 && !cancels {
			// ... and runs the next transaction on it: Required, business returns nil, the coordinator agrees
			sc2 := scenario{Steps: []step{{Op: "enter", Mode: "Required", Kind: "shared"}, {Op: "leave", O: "nil"}}, RetryC: sc.RetryC, RetryR: sc.RetryR}
			r2 := &runner{i: 1_000_000 + i, sc: sc2, ctx: ctx, base: base, cancel: func() {}, xids: map[string]int{}, seed: o.Seed, coord: coord}
			r2.t = w.Begin(map[string]interface{}{"i": i, "sc": sc2, "again": true}, "again")
			r2.t.Add("Start", "retryc", sc.RetryC, "retryr", sc.RetryR, "sig", "start")
			byName[fmt.Sprintf("sc%d", r2.i)] = r2
			r.again = r2
		}
		key := [2]int{sc.RetryC, sc.RetryR}
		if _, ok := byRetry[key]; !ok {
			order = append(order, key)
		}
		byRetry[key] = append(byRetry[key], r)
	}
	for _, mr := range order {
		tm.InitTm(tm.TmConfig{CommitRetryCount: mr[0], RollbackRetryCount: mr[1], DefaultGlobalTransactionTimeout: 60 * time.Second})
		rs := byRetry[mr]
		sem := make(chan struct{}, 48)
		var wg sync.WaitGroup
		for _, r := range rs {
			wg.Add(1)
			sem <- struct{}{}
			go func(r *runner) {
				defer wg.Done()
				defer func() { <-sem }()
				done := make(chan struct{})
				go func() {
					defer close(done)
					r.run()
					if r.again != nil {
						r.again.run()
					}
				}()
				select {
				case <-done:
				case <-time.After(60 * time.Second):
					r.t.Add("Hang", "sig", "hang")
				}
				r.cancel()
			}(r)
		}
		wg.Wait()
		for _, r := range rs {
			r.t.Close()
			if r.again != nil {
				r.again.t.Close()
			}
		}
	}
	if err := w.Close(); err != nil {
		common.Fatal("%v", err)
	}
	fmt.Printf("DRIVER-OK traces=%d scenarios=%d\n", w.Count(), len(raws))
}

func classOf(sc scenario) string {
	var b strings.Builder
	fmt.Fprintf(&b, "retry=%d/%d", sc.RetryC, sc.RetryR)
	for _, s := range sc.Steps {
		switch s.Op {
		case "enter":
			b.WriteString(" >" + s.Mode[:3] + "/" + s.Kind[:1])
		case "leave":
			b.WriteString(" <" + s.O)
		case "beginrep":
			b.WriteString(" b:" + s.R)
		case "p2rep":
			b.WriteString(" p:" + s.R)
		case "cancel":
			b.WriteString(" X")
		}
	}
	return b.String()
}
