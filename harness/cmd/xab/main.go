// Driver for XABranch.tla (C17): replays TLC-generated (statement, mode, registration answer, database
// fault position, phase-two delivery, server version) scenarios against the real XA proxy driver over
// memsql and records, in the order of the counter shared by the database and the coordinator stand-in,
// what the two observed: registration, every XA command with its identifier, the business statement,
// the value returned to the caller, the phase-two requests and replies, and what is prepared / open /
// durable after each phase.
//
// -mode ids is the pure-function leg: the exported identifier builders (XaIdBuild, XaIdBuildWithByte)
// over seeded random xids and branch ids of the whole uint64 range.
package main

import (
	"context"
	"database/sql"
	"encoding/json"
	"errors"
	"fmt"
	"math"
	"os"
	"sort"
	"strconv"
	"strings"
	"sync"
	"time"

	sqlpkg "seata.apache.org/seata-go/pkg/datasource/sql"
	"seata.apache.org/seata-go/pkg/protocol/branch"
	"seata.apache.org/seata-go/pkg/protocol/message"
	"seata.apache.org/seata-go/pkg/tm"

	"verif/harness/atlab"
	"verif/harness/common"
	"verif/harness/memsql"
	"verif/harness/tc"
	"verif/harness/trace"
)

type scenario struct {
	Kind   string `json:"kind"`   // ins | upd | del | sel
	Mode   string `json:"mode"`   // auto | explicit
	Reg    string `json:"reg"`    // ok | fail | neterr
	FailAt int    `json:"failAt"` // client statement (counted from the start of the call) the database fails; 0 = none
	P2     string `json:"p2"`     // commit | rollback: what the transaction manager decides if phase one returned nil
	How    string `json:"how"`    // once | dup | retry | restart | other
	Ver    string `json:"ver"`    // server version
	Ca     int    `json:"ca"`     // 1: explicit transaction: Commit is called although the business statement failed
	Reuse  int    `json:"reuse"`  // 1: the pooled connection served a complete XA transaction before; 2: another global transaction uses the pool between phase one and phase two
	Xid    string `json:"xid"`    // xid flavour: "" (plain) | dash | long | quote   (data dimension, chosen by the driver)
	// Early: the coordinator's BranchRollback arrives while phase one is still running, when this statement of the
	// branch is in flight at the database: start | dml | end | prepare ("" = phase two after the call returned)
	Early string `json:"early"`
}

const ddl = "CREATE TABLE acct (id int NOT NULL, v int NOT NULL, PRIMARY KEY (id))"

type obs struct {
	seq int64
	ev  string
	kv  []interface{}
}

var debug = os.Getenv("XAB_DEBUG") != ""

// slowLeg: XAB_SLOW=1 - the process runs with a 100 ms branch execution timeout and every business statement
// is held back for 250 ms
var slowLeg = os.Getenv("XAB_SLOW") != ""

func main() {
	o := common.Parse()
	if o.Mode == "ids" {
		idsLeg(o)
		return
	}
	raws, err := trace.ReadScenarios(o.Scenarios)
	if err != nil {
		common.Fatal("%v", err)
	}
	var scs []scenario
	for i, raw := range raws {
		var sc scenario
		if err := json.Unmarshal(raw, &sc); err != nil {
			common.Fatal("scenario %d: %v", i, err)
		}
		scs = append(scs, sc)
	}
	// the data dimension.  The scenario list has the same layout in both tiers (replays name a scenario
	// by its index): [0, N) the enumerated scenarios with plain xids; [N, N+nExtra) seeded random
	// scenarios over the xid flavours (quick runs the first nExtraQuick of them); [N+nExtra, 2N+nExtra)
	// the enumerated scenarios again with an xid that contains '-' (thorough only).
	const nExtra, nExtraQuick = 640, 32
	nEnum := len(scs)
	earlyLeg := false // the leg whose scenarios carry an `early` marker (XABranch_GenEarly.cfg)
	for _, sc := range scs {
		earlyLeg = earlyLeg || sc.Early != ""
	}
	r := o.Rand(7)
	for j := 0; j < nExtra; j++ {
		if earlyLeg {
			// the data dimension of the early leg: xid flavours x arrival point x delivery afterwards
			scs = append(scs, scenario{Kind: []string{"ins", "upd", "del", "sel"}[r.Intn(4)], Mode: []string{"auto", "explicit"}[r.Intn(2)], Reg: "ok",
				P2: "rollback", How: []string{"once", "once", "dup", "restart"}[r.Intn(4)], Ver: []string{"8.0.28", "8.0.30"}[r.Intn(2)],
				Xid: []string{"dash", "dash", "long", "quote", "bigbid"}[r.Intn(5)], Early: []string{"start", "dml", "end", "prepare"}[r.Intn(4)]})
			continue
		}
		sc := scenario{Kind: []string{"ins", "upd", "del", "sel"}[r.Intn(4)], Mode: []string{"auto", "explicit"}[r.Intn(2)], Reg: "ok",
			P2: []string{"commit", "rollback"}[r.Intn(2)], How: []string{"once", "once", "dup", "restart"}[r.Intn(4)],
			Ver: []string{"8.0.28", "8.0.30"}[r.Intn(2)], Xid: []string{"dash", "dash", "long", "quote", "bigbid"}[r.Intn(5)]}
		if r.Intn(4) == 0 && !slowLeg { // the slow leg has no database faults on top of the timeout
			sc.FailAt = 1 + r.Intn(4)
		}
		scs = append(scs, sc)
	}
	for j := 0; j < nEnum; j++ {
		sc := scs[j]
		sc.Xid = "dash"
		scs = append(scs, sc)
	}
	inTier := func(i int) bool {
		return o.Only != nil || o.Thorough() || i < nEnum+nExtraQuick
	}

	w, err := trace.NewWriter(o.Out)
	if err != nil {
		common.Fatal("%v", err)
	}
	w.SetBase(o.TraceBase())
	cfg := tc.DefaultConfig()
	labs := map[string]*atlab.XALab{}
	var first *atlab.XALab
	lab := func(ver string) *atlab.XALab {
		if l, ok := labs[ver]; ok {
			return l
		}
		l := atlab.OpenXA(cfg, fmt.Sprintf("xab%s-%d", strings.ReplaceAll(ver, ".", ""), o.ShardK), ver, first)
		if first == nil {
			first = l
		}
		labs[ver] = l
		if slowLeg {
			// every scenario of this leg outlives the branch execution timeout (the business statement is held
			// back); the key cannot be set through the configuration file, hence the verif hook
			sqlpkg.VerifSetXABranchExecutionTimeout(100 * time.Millisecond)
		}
		return l
	}
	refused := 0
	for i, sc := range scs {
		if !o.Want(i) || !inTier(i) {
			continue
		}
		cls := fmt.Sprintf("kind=%s,mode=%s,reg=%s,failAt=%d,p2=%s,how=%s,ver=%s,reuse=%d,xid=%s", sc.Kind, sc.Mode, sc.Reg, sc.FailAt, sc.P2, sc.How, sc.Ver, sc.Reuse, sc.Xid)
		if sc.Early != "" {
			cls += ",early=" + sc.Early
		}
		t := w.Begin(map[string]interface{}{"i": i, "sc": sc}, cls)
		if run(lab(sc.Ver), t, sc, o.Rand(int64(i)+1000)) {
			refused++
		}
		t.Close()
	}
	if err := w.Close(); err != nil {
		common.Fatal("%v", err)
	}
	fmt.Printf("DRIVER-OK traces=%d scenarios=%d refused=%d\n", w.Count(), len(scs), refused)
}

type rnd interface {
	Intn(int) int
	Int63() int64
}

// xidFor builds the global transaction id the coordinator hands out, by flavour.
func xidFor(flavour string, r rnd) string {
	n := r.Int63()
	switch flavour {
	case "dash": // a coordinator addressed by a host name that contains '-' (and digits after it)
		return fmt.Sprintf("tc-%d.seata-ns:8091:%d", r.Intn(10), n)
	case "long": // an IPv6 / long host name: the whole identifier exceeds 64 bytes
		return fmt.Sprintf("[2001:db8:85a3:8d3:1319:8a2e:370:7348]:8091:%d", n)
	case "quote":
		return fmt.Sprintf("10.0.0.1:8091:%d'%d", n%1000, r.Intn(1000))
	}
	return fmt.Sprintf("10.0.0.1:8091:%d", n)
}

// expectedID is the identifier every XA command of the branch has to carry: the function of
// (xid, branch id) that xa_branch_xid.go defines - the xid text, '-', the branch id in decimal.
func expectedID(xid string, bid int64) string { // (documentation of the present format; see idOK)
	return xid + "-" + strconv.FormatUint(uint64(bid), 10)
}

// idOK: the identifier that reached the database is f(xid, branch id) - sent as one string (gtrid
// only, what the code does today) or as the two parts XABranchXid encodes, gtrid = xid and
// bqual = "-<branch id>" (memsql reports a two-part xid as "gtrid,bqual").
func idOK(got, xid string, bid int64) bool {
	d := strconv.FormatUint(uint64(bid), 10)
	return got == xid+"-"+d || got == xid+",-"+d
}

func stmtSQL(kind string) (q string, args []interface{}, query bool) {
	switch kind {
	case "ins":
		return "INSERT INTO acct (id, v) VALUES (?, ?)", []interface{}{3, 1}, false
	case "upd":
		return "UPDATE acct SET v = ? WHERE id = ?", []interface{}{1, 1}, false
	case "del":
		return "DELETE FROM acct WHERE id = ?", []interface{}{2}, false
	}
	return "SELECT v FROM acct WHERE id = ?", []interface{}{1}, true
}

// call runs the business statement the way an application does, in autocommit use or in an explicit
// transaction, and reports the first error; a panic out of the database handle is reported as such.
func call(ctx context.Context, db *sql.DB, sc scenario) (err error, panicked interface{}) {
	q, args, query := stmtSQL(sc.Kind)
	var tx *sql.Tx
	defer func() {
		if p := recover(); p != nil {
			panicked = p
			if tx != nil {
				// what an application's deferred rollback does; after a panic out of tx.QueryContext
				// database/sql still holds the transaction's lock and Rollback never returns
				done := make(chan struct{})
				go func(tx *sql.Tx) {
					defer close(done)
					defer func() { recover() }()
					_ = tx.Rollback()
				}(tx)
				select {
				case <-done:
				case <-time.After(150 * time.Millisecond):
				}
			}
		}
	}()
	if sc.Mode == "auto" {
		if query {
			rows, e := db.QueryContext(ctx, q, args...)
			if e != nil {
				return e, nil
			}
			for rows.Next() {
			}
			e = rows.Err()
			rows.Close()
			return e, nil
		}
		_, e := db.ExecContext(ctx, q, args...)
		return e, nil
	}
	var e error
	tx, e = db.BeginTx(ctx, nil)
	if e != nil {
		tx = nil
		return e, nil
	}
	if query {
		var rows *sql.Rows
		rows, e = tx.QueryContext(ctx, q, args...)
		if e == nil {
			for rows.Next() {
			}
			e = rows.Err()
			rows.Close()
		}
	} else {
		_, e = tx.ExecContext(ctx, q, args...)
	}
	if e != nil {
		if sc.Ca == 1 {
			// an application that does not look at the statement's error and commits: whatever Commit says is what
			// the business callback returns
			return tx.Commit(), nil
		}
		_ = tx.Rollback() // what an application does with a failed statement
		return e, nil
	}
	return tx.Commit(), nil
}

// xaVerb returns the XA verb a statement text starts with ("" if it is no XA command).
func xaVerb(q string) string {
	f := strings.Fields(strings.ToLower(q))
	if len(f) >= 2 && f[0] == "xa" {
		switch f[1] {
		case "start", "begin":
			return "start"
		case "end", "prepare", "commit", "rollback":
			return f[1]
		}
	}
	return ""
}

func verAtLeast829(v string) bool { return v != "8.0.28" }

func run(lab *atlab.XALab, t *trace.T, sc scenario, r rnd) (refused bool) {
	lab.Recycle()
	lab.ResetXA(ddl)
	lab.Srv.MustExec("INSERT INTO acct (id, v) VALUES (1, 0), (2, 0)")

	xid := xidFor(sc.Xid, r)
	bid := 1 + r.Int63()%(1<<40)
	if sc.Xid == "bigbid" || r.Intn(4) == 0 {
		bid = math.MaxInt64 - r.Int63()%1000
	}
	curXid, curBid := xid, bid
	lab.Coord.Script = func(kind string, m tc.Msg) (tc.Reply, bool) {
		switch kind {
		case "GlobalBegin":
			return tc.Reply{Body: message.GlobalBeginResponse{AbstractTransactionResponse: message.AbstractTransactionResponse{
				AbstractResultMessage: message.AbstractResultMessage{ResultCode: message.ResultCodeSuccess}}, Xid: curXid}}, true
		case "BranchRegister":
			switch sc.Reg {
			case "fail":
				if curXid == xid {
					return tc.Reply{Body: message.BranchRegisterResponse{AbstractTransactionResponse: message.AbstractTransactionResponse{
						AbstractResultMessage: tc.FailResult("branch register refused")}}}, true
				}
			case "neterr":
				if curXid == xid {
					return tc.Reply{NetErr: errors.New("write tcp: connection reset by peer")}, true
				}
			}
			return tc.Reply{Body: message.BranchRegisterResponse{AbstractTransactionResponse: message.AbstractTransactionResponse{
				AbstractResultMessage: message.AbstractResultMessage{ResultCode: message.ResultCodeSuccess}}, BranchId: curBid}}, true
		}
		return tc.Reply{}, false
	}
	defer func() { lab.Coord.Script = nil }()

	if sc.Reuse == 1 {
		// the pooled connection has served one complete, successful XA transaction before
		curXid, curBid = xidFor("", r), 1+r.Int63()%(1<<40)
		_ = tm.WithGlobalTx(context.Background(), &tm.GtxConfig{Name: "xab-pre", Timeout: 30 * time.Second}, func(ctx context.Context) error {
			e, p := call(ctx, lab.DB, scenario{Kind: "upd", Mode: "auto"})
			if p != nil {
				return fmt.Errorf("panic: %v", p)
			}
			return e
		})
		lab.Coord.BranchCommit(lab.Sess, curXid, curBid, branch.BranchTypeXA, lab.RID, nil, 8*time.Second)
		curXid, curBid = xid, bid
	}
	if sc.Reuse == 3 {
		// the pooled connection has rolled a branch back in phase one before: its business statement failed
		curXid, curBid = xidFor("", r), 1+r.Int63()%(1<<40)
		preXid, preBid := curXid, curBid
		registeredPre := false
		_ = tm.WithGlobalTx(context.Background(), &tm.GtxConfig{Name: "xab-prefail", Timeout: 30 * time.Second}, func(ctx context.Context) error {
			lab.Srv.AddFault(memsql.Fault{Nth: 2, SkipMeta: true})
			e, p := call(ctx, lab.DB, scenario{Kind: "upd", Mode: "auto"})
			lab.Srv.ClearFaults()
			registeredPre = true
			if p != nil {
				return fmt.Errorf("panic: %v", p)
			}
			if e == nil {
				return errors.New("rolled back on purpose")
			}
			return e
		})
		if registeredPre {
			lab.Coord.BranchRollback(lab.Sess, preXid, preBid, branch.BranchTypeXA, lab.RID, nil, 8*time.Second)
		}
		curXid, curBid = xid, bid
	}
	snapBefore := lab.Srv.SnapshotHash("acct")

	detach := verAtLeast829(sc.Ver)
	t.Add("Start", "mode", sc.Mode, "detach", detach, "sig", "start")

	// ---------------------------------------------------------------- phase one
	var callErr error
	var panicked interface{}
	var seqRet int64
	var st1 [3]interface{}
	// the early delivery (sc.Early): its request and reply, stamped with the shared sequence like everything else
	var earlyMu sync.Mutex
	var earlyEvs []obs
	earlyFired := false
	_ = tm.WithGlobalTx(context.Background(), &tm.GtxConfig{Name: "xab", Timeout: 30 * time.Second}, func(ctx context.Context) error {
		lab.Srv.ClearJournal()
		lab.Coord.ClearLog()
		if sc.FailAt > 0 {
			lab.Srv.AddFault(memsql.Fault{Nth: sc.FailAt, SkipMeta: true})
		}
		if slowLeg {
			held := false
			lab.Srv.SetGate(func(e *memsql.Entry) error {
				if !held && strings.EqualFold(e.Table, "acct") {
					held = true
					time.Sleep(250 * time.Millisecond)
				}
				return nil
			})
		}
		if sc.Early != "" {
			// The coordinator gives the global transaction up while the application is still inside the call: when
			// the chosen statement of THIS branch arrives at the database (it is in flight: the gate runs on the
			// statement's goroutine before the statement executes, without the server's lock) BranchRollback is
			// delivered through the client's real dispatch and its reply awaited; then the statement goes on.
			// Whatever the resource manager sends to the database meanwhile passes the gate (earlyFired) and lands
			// in the journal between the P2Early and the P2 event, before the held statement.
			lab.Srv.SetGate(func(e *memsql.Entry) error {
				hit := false
				switch sc.Early {
				case "start", "end", "prepare":
					hit = e.Class == "xa_"+sc.Early && idOK(e.XAID, xid, bid)
				case "dml":
					hit = strings.EqualFold(e.Table, "acct") && !strings.HasPrefix(e.Class, "xa_") && e.Class != "meta"
				}
				earlyMu.Lock()
				if !hit || earlyFired {
					earlyMu.Unlock()
					return nil
				}
				earlyFired = true
				earlyMu.Unlock()
				s0 := tc.NextSeq()
				st, ok := lab.Coord.BranchRollback(lab.Sess, xid, bid, branch.BranchTypeXA, lab.RID, nil, 3*time.Second)
				s1 := tc.NextSeq()
				earlyMu.Lock()
				earlyEvs = append(earlyEvs, obs{s0, "P2Early", []interface{}{"kind", "rollback", "how", "early", "at", sc.Early}},
					obs{s1, "P2", []interface{}{"kind", "rollback", "status", atlab.StatusName(st, ok), "at", sc.Early}})
				earlyMu.Unlock()
				return nil
			})
		}
		callErr, panicked = call(ctx, lab.DB, sc)
		lab.Srv.SetGate(nil)
		lab.Srv.ClearFaults()
		seqRet = tc.NextSeq()
		st1 = [3]interface{}{len(lab.Srv.PreparedXA()), lab.ConnsInXA(), lab.Srv.SnapshotHash("acct") != snapBefore}
		if panicked != nil {
			return fmt.Errorf("panic: %v", panicked)
		}
		return callErr
	})
	ret := "nil"
	if panicked != nil {
		ret = "panic"
	} else if callErr != nil {
		ret = "err"
	}
	seqAfter1 := tc.NextSeq()

	// windows of the shared sequence in which another global transaction works on the same pool (reuse = 2):
	// its statements and registrations are no part of this branch's trace
	var windows [][2]int64
	skipped := func(seq int64) bool {
		for _, w := range windows {
			if seq > w[0] && seq < w[1] {
				return true
			}
		}
		return false
	}
	var xid2 string
	var bid2 int64
	inter := false

	// ---------------------------------------------------------------- phase two
	registered := false
	for _, rec := range lab.Coord.Log() {
		if resp, ok := rec.Body.(message.BranchRegisterResponse); ok && resp.ResultCode == message.ResultCodeSuccess {
			registered = true
		}
	}
	var evs []obs
	earlyMu.Lock()
	evs = append(evs, earlyEvs...)
	earlyMu.Unlock()
	kind := "rollback"
	if sc.P2 == "commit" && ret == "nil" && sc.Early == "" {
		kind = "commit" // the transaction manager commits only what returned nil (and the coordinator never changes a decision)
	}
	if registered && sc.Reuse == 2 && ret == "nil" {
		// the interloper: phase one of another global transaction on the same pool (most recently released
		// connection first), while this branch waits for its phase two
		w0 := tc.NextSeq()
		xid2, bid2 = xidFor("", r), 1+r.Int63()%(1<<40)
		curXid, curBid = xid2, bid2
		ictx, cancel := context.WithTimeout(context.Background(), 3*time.Second)
		ierr := tm.WithGlobalTx(ictx, &tm.GtxConfig{Name: "xab-inter", Timeout: 30 * time.Second}, func(ctx context.Context) error {
			// a read: the interloper must not change the table the final state of this branch is judged by
			e, p := call(ctx, lab.DB, scenario{Kind: "sel", Mode: "auto"})
			if p != nil {
				return fmt.Errorf("panic: %v", p)
			}
			return e
		})
		cancel()
		inter = ierr == nil
		curXid, curBid = xid, bid
		windows = append(windows, [2]int64{w0, tc.NextSeq()})
	}
	if registered {
		deliver := func(how string) {
			evs = append(evs, obs{tc.NextSeq(), "P2Req", []interface{}{"kind", kind, "how", how}})
			var st branch.BranchStatus
			var ok bool
			if kind == "commit" {
				st, ok = lab.Coord.BranchCommit(lab.Sess, xid, bid, branch.BranchTypeXA, lab.RID, nil, 8*time.Second)
			} else {
				st, ok = lab.Coord.BranchRollback(lab.Sess, xid, bid, branch.BranchTypeXA, lab.RID, nil, 8*time.Second)
			}
			evs = append(evs, obs{tc.NextSeq(), "P2", []interface{}{"kind", kind, "status", atlab.StatusName(st, ok)}})
		}
		switch sc.How {
		case "dup":
			deliver("once")
			deliver("dup")
		case "retry":
			lab.Srv.AddFault(memsql.Fault{Nth: 1, SkipMeta: true})
			deliver("once")
			lab.Srv.ClearFaults()
			deliver("retry")
		case "restart":
			evs = append(evs, obs{tc.NextSeq(), "Restart", nil})
			lab.Restart()
			deliver("restart")
		case "other":
			lab.Other()
			deliver("other")
		default:
			deliver("once")
		}
	}
	if inter {
		// the interloper's own phase two (its transaction manager committed)
		w0 := tc.NextSeq()
		lab.Coord.BranchCommit(lab.Sess, xid2, bid2, branch.BranchTypeXA, lab.RID, nil, 8*time.Second)
		windows = append(windows, [2]int64{w0, tc.NextSeq()})
	}
	seqEnd := tc.NextSeq()

	// ---------------------------------------------------------------- merge the logs
	connIdx := map[int]int{}
	faultClass := "none"
	ids1, ids2 := map[string]bool{}, map[string]bool{}
	for _, e := range lab.Srv.Journal() {
		if skipped(e.Seq) {
			continue
		}
		if _, ok := connIdx[e.Conn]; !ok {
			connIdx[e.Conn] = len(connIdx) + 1
		}
		c := connIdx[e.Conn]
		res := "ok"
		if e.Err != "" {
			res = "xaer" // the database itself refused the statement
			if e.ErrNo == 1105 {
				res = "fault"
			}
		}
		ph1 := e.Seq < seqAfter1
		switch {
		case strings.HasPrefix(e.Class, "xa_") && e.Class != "xa_recover":
			cmd := strings.TrimPrefix(e.Class, "xa_")
			if res == "fault" && ph1 {
				faultClass = cmd
			}
			if ph1 {
				ids1[e.XAID] = true
			} else {
				ids2[e.XAID] = true
			}
			evs = append(evs, obs{e.Seq, "Xa", []interface{}{"cmd", cmd, "idok", idOK(e.XAID, xid, bid), "res", res, "c", c, "errno", e.ErrNo}})
		case xaVerb(e.SQL) != "":
			// the text is an XA command the database could not even take: a syntax error (1064) or an
			// identifier it rejects as such (1398, longer than 64 bytes)
			id := ""
			if i, j := strings.Index(e.SQL, "'"), strings.LastIndex(e.SQL, "'"); i >= 0 && j > i {
				id = e.SQL[i+1 : j]
			}
			if ph1 {
				ids1[id] = true
			} else {
				ids2[id] = true
			}
			r := "invalid"
			if res == "fault" {
				r = "fault"
				if ph1 {
					faultClass = xaVerb(e.SQL)
				}
			}
			evs = append(evs, obs{e.Seq, "Xa", []interface{}{"cmd", xaVerb(e.SQL), "idok", idOK(id, xid, bid) && e.ErrNo != 1064, "res", r, "c", c, "errno", e.ErrNo}})
		case strings.EqualFold(e.Table, "acct"):
			if res == "fault" && ph1 {
				faultClass = "dml"
			}
			evs = append(evs, obs{e.Seq, "Dml", []interface{}{"res", res, "c", c, "w", e.Affected > 0 && e.Class != "select", "errno", e.ErrNo}})
		default:
			if e.Err != "" {
				if res == "fault" && ph1 {
					faultClass = "other"
				}
				evs = append(evs, obs{e.Seq, "OtherFailed", []interface{}{"class", e.Class, "c", c}})
			}
		}
		if debug {
			fmt.Fprintf(os.Stderr, "  db %d c%d %-12s err=%q | %s\n", e.Seq, c, e.Class, e.Err, e.SQL)
		}
	}
	for _, rec := range lab.Coord.Log() {
		if skipped(rec.Seq) {
			continue
		}
		switch b := rec.Body.(type) {
		case message.BranchRegisterRequest:
			evs = append(evs, obs{rec.Seq, "RegReq", []interface{}{"xa", b.BranchType == branch.BranchTypeXA && b.Xid == xid}})
			if rec.Note == "neterr" {
				evs = append(evs, obs{rec.Seq, "RegRep", []interface{}{"r", "neterr"}})
			}
		case message.BranchRegisterResponse:
			rr := "ok"
			if b.ResultCode != message.ResultCodeSuccess {
				rr = "fail"
			}
			evs = append(evs, obs{rec.Seq, "RegRep", []interface{}{"r", rr}})
		case message.BranchReportRequest:
			st := "failed"
			if b.Status == branch.BranchStatusPhaseoneDone {
				st = "done"
			}
			rr := "ok"
			if rec.Note == "neterr" {
				rr = "neterr"
			}
			evs = append(evs, obs{rec.Seq, "Report", []interface{}{"status", st, "r", rr, "idok", b.Xid == xid && b.BranchId == bid}})
		}
	}
	evs = append(evs, obs{seqRet, "Return", []interface{}{"v", ret}})
	evs = append(evs, obs{seqRet, "State", []interface{}{"prepared", st1[0], "inxa", st1[1], "delta", st1[2], "ph", 1}})
	if ret != "nil" && faultClass == "none" && sc.Reg == "ok" {
		// the proxy refused the statement although nothing was injected and the coordinator granted the
		// branch: availability is not this property's business; the rest of the trace is still checked
		refused = true
		why := ""
		if callErr != nil {
			why = callErr.Error()
		} else {
			why = fmt.Sprint(panicked)
		}
		evs = append(evs, obs{seqRet, "Refused", []interface{}{"why", why}})
	}
	evs = append(evs, obs{seqEnd, "State", []interface{}{"prepared", len(lab.Srv.PreparedXA()), "inxa", lab.ConnsInXA(),
		"delta", lab.Srv.SnapshotHash("acct") != snapBefore, "ph", 2}})
	// per-run identifier consistency: phase two speaks of the branch with the very text phase one used
	same := true
	for id := range ids2 {
		if len(ids1) > 0 && !ids1[id] {
			same = false
		}
	}
	evs = append(evs, obs{seqEnd, "End", []interface{}{"idsame", same && len(ids1) <= 1 && len(ids2) <= 1, "nids", len(ids1) + len(ids2)}})
	sort.SliceStable(evs, func(i, j int) bool { return evs[i].seq < evs[j].seq })

	xf := sc.Xid
	if xf == "" {
		xf = "plain"
	}
	sig := fmt.Sprintf("%s:%s:reg=%s:fault=%s:ver=%s:p2=%s-%s:reuse=%d:xid=%s", sc.Mode, sc.Kind, sc.Reg, faultClass, sc.Ver, kind, sc.How, sc.Reuse, xf)
	if slowLeg {
		sig += ":slow"
	}
	if sc.Ca == 1 {
		sig += ":commit-anyway"
	}
	if sc.Early != "" {
		sig += ":early=" + sc.Early
	}
	for _, e := range evs {
		kv := append([]interface{}{}, e.kv...)
		s := sig
		switch e.ev {
		case "Return":
			s += ":ret=" + ret
		case "Xa":
			s += fmt.Sprintf(":cmd=%v:errno=%v", e.kv[1], e.kv[9])
		case "P2":
			s += fmt.Sprintf(":status=%v", e.kv[3])
		case "State":
			s += fmt.Sprintf(":ret=%s:ph=%v", ret, e.kv[7])
		}
		kv = append(kv, "sig", s)
		t.Add(e.ev, kv...)
		if debug {
			fmt.Fprintf(os.Stderr, "  ev %d %s %v\n", e.seq, e.ev, e.kv)
		}
	}
	if debug {
		fmt.Fprintf(os.Stderr, "== %+v xid=%s bid=%d ret=%s err=%v panic=%v\n", sc, xid, bid, ret, callErr, panicked)
	}
	return refused
}

// ------------------------------------------------------------------------------------------------
// The pure-function leg: identifier function over the data dimension.

func codes(s string) []int {
	out := make([]int, 0, len(s))
	for i := 0; i < len(s); i++ {
		out = append(out, int(s[i]))
	}
	return out
}

func idsLeg(o *common.Opts) {
	w, err := trace.NewWriter(o.Out)
	if err != nil {
		common.Fatal("%v", err)
	}
	w.SetBase(o.TraceBase())
	n := 400
	if o.Thorough() {
		n = 20000
	}
	r := o.Rand(17)
	alphabet := []string{"-", ":", "'", ".", "0", "1", "9", "a", "Z", " ", "\\", ","}
	randXid := func() string {
		switch r.Intn(6) {
		case 0:
			return xidFor("", r)
		case 1:
			return xidFor("dash", r)
		case 2:
			return xidFor("long", r)
		case 3:
			return xidFor("quote", r)
		case 4: // ends in "-<digits>": the shape of an identifier itself
			return fmt.Sprintf("x-%d", r.Intn(100))
		}
		var sb strings.Builder
		for k := r.Intn(90); k > 0; k-- {
			sb.WriteString(alphabet[r.Intn(len(alphabet))])
		}
		return sb.String()
	}
	randBid := func() uint64 {
		switch r.Intn(5) {
		case 0:
			return uint64(r.Intn(12))
		case 1:
			return math.MaxUint64 - uint64(r.Intn(3))
		case 2:
			return uint64(math.MaxInt64) + uint64(r.Intn(3)) - 1
		}
		return uint64(r.Int63())<<1 | uint64(r.Intn(2))
	}
	const batch = 20
	for b := 0; b < n/batch; b++ {
		t := w.Begin(map[string]interface{}{"i": b, "leg": "ids"}, "ids")
		t.Add("IdStart", "sig", "ids")
		seen := map[string][2]interface{}{}
		for j := 0; j < batch; j++ {
			xid, bid := randXid(), randBid()
			if j%5 == 4 && j > 0 {
				// a near collision: move the boundary between xid and branch id
				xid = xid + "-" + strconv.FormatUint(bid%10, 10)
			}
			x := sqlpkg.XaIdBuild(xid, bid)
			text := x.String()
			// round trip through the two byte parts a database hands back (XA RECOVER)
			y := sqlpkg.XaIdBuildWithByte(x.GetGlobalTransactionId(), x.GetBranchQualifier())
			rt := y.GetGlobalXid() == xid && y.GetBranchId() == bid && y.String() == text
			// getters agree with the arguments
			get := x.GetGlobalXid() == xid && x.GetBranchId() == bid
			// injective on what this batch has seen
			inj := true
			if prev, ok := seen[text]; ok && (prev[0] != xid || prev[1] != bid) {
				inj = false
			}
			seen[text] = [2]interface{}{xid, bid}
			// the decimal digits of the branch id, for the specification to re-assemble the text
			dec := strconv.FormatUint(bid, 10)
			back, perr := strconv.ParseUint(dec, 10, 64)
			shape := "rand"
			switch {
			case strings.Contains(xid, "'"):
				shape = "quote"
			case len(text) > 64:
				shape = "long"
			case strings.Contains(xid, "-"):
				shape = "dash"
			}
			t.Add("Id", "xid", codes(xid), "dec", codes(dec), "text", codes(text), "decok", perr == nil && back == bid,
				"rt", rt, "get", get, "inj", inj, "sig", "ids:"+shape)
		}
		t.Add("IdEnd", "sig", "ids")
		t.Close()
	}
	if err := w.Close(); err != nil {
		common.Fatal("%v", err)
	}
	fmt.Printf("DRIVER-OK traces=%d ids=%d\n", w.Count(), n)
}
