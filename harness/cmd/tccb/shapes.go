package main

import (
	"fmt"
	"math/rand"

	"seata.apache.org/seata-go/pkg/tm"
)

// The parameter-shape dimension of C05: a family of hand-written parameter types for
// proxy.Prepare(ctx, params).  Every shape comes with the tagged parameters an application expects
// to find in the action context (`want`), written down by hand from the field tags - not derived by
// reflection, so that it is independent of the code under test.

type pTagged struct {
	Name   string  `tccParam:"name"`
	Amount int64   `tccParam:"amount"`
	Rate   float64 `tccParam:"rate"`
	Ok     bool    `tccParam:"ok"`
}

type pMixed struct {
	Name     string `tccParam:"name"`
	Skip     string `tccParam:"-"`
	Empty    string `tccParam:""`
	Plain    string
	JSONOnly string `json:"jsononly"`
	Count    int    `tccParam:"count" json:"cnt"`
}

type pUnexported struct {
	secret string `tccParam:"secret"` //nolint
	Public string `tccParam:"public"`
	hidden int    //nolint
}

type inner2 struct {
	Tags []string `json:"tags"`
}

type inner struct {
	City string `json:"city"`
	Zip  int
	note string  //nolint
	Deep *inner2 `json:"deep,omitempty"`
}

type pNested struct {
	Addr     inner  `tccParam:"addr"`
	AddrP    *inner `tccParam:"addrp"`
	NilP     *inner `tccParam:"nilp"`
	Untagged inner
}

type pPtrFields struct {
	S *string `tccParam:"s"`
	N *int64  `tccParam:"n"`
	Z *string `tccParam:"z"`
	U *int
}

type pColl struct {
	M    map[string]int    `tccParam:"m"`
	L    []string          `tccParam:"l"`
	B    []byte            `tccParam:"b"`
	Recs []inner           `tccParam:"recs"`
	NilM map[string]string `tccParam:"nilm"`
	NilL []int             `tccParam:"nill"`
	Arr  [2]int            `tccParam:"arr"`
}

type pEmbedVal struct {
	tm.BusinessActionContext
	X string `tccParam:"x"`
}

type pCtxPtr struct {
	Ctx *tm.BusinessActionContext
	X   string `tccParam:"x"`
}

type pCtxPtrUnexp struct {
	ctx *tm.BusinessActionContext //nolint
	X   string                    `tccParam:"x"`
}

type pEmbedPtr struct {
	*tm.BusinessActionContext
	X string `tccParam:"x"`
}

type pIface struct {
	Any    interface{} `tccParam:"any"`
	NilAny interface{} `tccParam:"nilany"`
}

type Base struct {
	ID    int
	Label string `json:"label"`
}

type pEmbedPlain struct {
	Base `tccParam:"base"`
	Y    string `tccParam:"y"`
}

type shape struct {
	name  string
	build func(r *rand.Rand) (params interface{}, want map[string]interface{})
}

func rstr(r *rand.Rand, p string) string {
	alphabet := []string{"", "x", "Jack", "ünï", `q"uo\te`, "a b", "<&>", "0", "null", "长"}
	return p + alphabet[r.Intn(len(alphabet))] + fmt.Sprint(r.Intn(1000))
}

func rint(r *rand.Rand) int64 {
	switch r.Intn(5) {
	case 0:
		return 0
	case 1:
		return -int64(r.Intn(1000))
	case 2:
		return int64(r.Intn(1 << 30))
	case 3:
		return 1<<53 + int64(r.Intn(100)) // beyond float64 integers: JSON normalisation applies to both sides
	}
	return int64(r.Intn(100))
}

func rfloat(r *rand.Rand) float64 {
	return []float64{0, 1.5, -2.25, 1e21, 3.141592653589793, 1e-7}[r.Intn(6)] + float64(r.Intn(3))
}

func preCtx(r *rand.Rand) *tm.BusinessActionContext {
	switch r.Intn(3) {
	case 0:
		return &tm.BusinessActionContext{}
	case 1:
		return &tm.BusinessActionContext{ActionContext: map[string]interface{}{}}
	}
	return &tm.BusinessActionContext{Xid: "stale-xid", BranchId: 7, ActionName: "stale",
		ActionContext: map[string]interface{}{"pre": rint(r), "pre2": rstr(r, "p")}}
}

var shapes = []shape{
	{"none", func(r *rand.Rand) (interface{}, map[string]interface{}) { return nil, map[string]interface{}{} }},
	{"tagged", func(r *rand.Rand) (interface{}, map[string]interface{}) {
		p := pTagged{rstr(r, "n"), rint(r), rfloat(r), r.Intn(2) == 0}
		return p, map[string]interface{}{"name": p.Name, "amount": p.Amount, "rate": p.Rate, "ok": p.Ok}
	}},
	{"mixed", func(r *rand.Rand) (interface{}, map[string]interface{}) {
		p := pMixed{rstr(r, "n"), rstr(r, "s"), rstr(r, "e"), rstr(r, "p"), rstr(r, "j"), int(rint(r) % 1000)}
		return p, map[string]interface{}{"name": p.Name, "count": p.Count}
	}},
	{"unexported", func(r *rand.Rand) (interface{}, map[string]interface{}) {
		p := pUnexported{rstr(r, "sec"), rstr(r, "pub"), 3}
		return p, map[string]interface{}{"public": p.Public}
	}},
	{"nested", func(r *rand.Rand) (interface{}, map[string]interface{}) {
		in := inner{City: rstr(r, "c"), Zip: r.Intn(99999), note: "n", Deep: &inner2{Tags: []string{rstr(r, "t"), "u"}}}
		in2 := inner{City: rstr(r, "d"), Zip: r.Intn(9)}
		p := pNested{Addr: in, AddrP: &in2, Untagged: in2}
		return p, map[string]interface{}{
			"addr":  map[string]interface{}{"city": in.City, "Zip": in.Zip, "deep": map[string]interface{}{"tags": in.Deep.Tags}},
			"addrp": map[string]interface{}{"city": in2.City, "Zip": in2.Zip},
			"nilp":  nil,
		}
	}},
	{"ptrparams", func(r *rand.Rand) (interface{}, map[string]interface{}) {
		p := &pTagged{rstr(r, "n"), rint(r), rfloat(r), r.Intn(2) == 0}
		return p, map[string]interface{}{"name": p.Name, "amount": p.Amount, "rate": p.Rate, "ok": p.Ok}
	}},
	{"ptrfields", func(r *rand.Rand) (interface{}, map[string]interface{}) {
		s, n, u := rstr(r, "s"), rint(r), 5
		p := pPtrFields{S: &s, N: &n, U: &u}
		return p, map[string]interface{}{"s": s, "n": n, "z": nil}
	}},
	{"collections", func(r *rand.Rand) (interface{}, map[string]interface{}) {
		p := pColl{M: map[string]int{rstr(r, "k"): r.Intn(9), "z": 0}, L: []string{rstr(r, "l"), ""}, B: []byte{0, 255, byte(r.Intn(256))},
			Recs: []inner{{City: rstr(r, "c"), Zip: 1}}, Arr: [2]int{r.Intn(5), -1}}
		m := map[string]interface{}{}
		for k, v := range p.M {
			m[k] = v
		}
		return p, map[string]interface{}{"m": m, "l": p.L, "b": p.B, "recs": []interface{}{map[string]interface{}{"city": p.Recs[0].City, "Zip": 1}},
			"nilm": nil, "nill": nil, "arr": []int{p.Arr[0], -1}}
	}},
	{"embedctxval", func(r *rand.Rand) (interface{}, map[string]interface{}) {
		p := pEmbedVal{BusinessActionContext: *preCtx(r), X: rstr(r, "x")}
		return p, map[string]interface{}{"x": p.X}
	}},
	{"ctxptr", func(r *rand.Rand) (interface{}, map[string]interface{}) {
		p := pCtxPtr{Ctx: preCtx(r), X: rstr(r, "x")}
		return p, map[string]interface{}{"x": p.X}
	}},
	{"ctxptrnil", func(r *rand.Rand) (interface{}, map[string]interface{}) {
		p := pCtxPtr{Ctx: nil, X: rstr(r, "x")}
		return p, map[string]interface{}{"x": p.X}
	}},
	{"ctxptrunexp", func(r *rand.Rand) (interface{}, map[string]interface{}) {
		p := pCtxPtrUnexp{ctx: preCtx(r), X: rstr(r, "x")}
		return p, map[string]interface{}{"x": p.X}
	}},
	{"embedctxptr", func(r *rand.Rand) (interface{}, map[string]interface{}) {
		p := pEmbedPtr{BusinessActionContext: preCtx(r), X: rstr(r, "x")}
		return p, map[string]interface{}{"x": p.X}
	}},
	{"ctxitselfptr", func(r *rand.Rand) (interface{}, map[string]interface{}) { return preCtx(r), map[string]interface{}{} }},
	{"ctxitselfval", func(r *rand.Rand) (interface{}, map[string]interface{}) { return *preCtx(r), map[string]interface{}{} }},
	{"iface", func(r *rand.Rand) (interface{}, map[string]interface{}) {
		v := map[string]interface{}{"k": []interface{}{1, rstr(r, "two"), true, nil}, "f": rfloat(r)}
		p := pIface{Any: v}
		return p, map[string]interface{}{"any": v, "nilany": nil}
	}},
	{"embedplain", func(r *rand.Rand) (interface{}, map[string]interface{}) {
		p := pEmbedPlain{Base: Base{ID: r.Intn(100), Label: rstr(r, "l")}, Y: rstr(r, "y")}
		return p, map[string]interface{}{"base": map[string]interface{}{"ID": p.ID, "label": p.Label}, "y": p.Y}
	}},
	{"mapparam", func(r *rand.Rand) (interface{}, map[string]interface{}) {
		return map[string]interface{}{"name": rstr(r, "n")}, map[string]interface{}{}
	}},
	{"sliceparam", func(r *rand.Rand) (interface{}, map[string]interface{}) {
		return []string{rstr(r, "a"), "b"}, map[string]interface{}{}
	}},
	{"nilstructptr", func(r *rand.Rand) (interface{}, map[string]interface{}) {
		return (*pTagged)(nil), map[string]interface{}{}
	}},
	{"ptrnonstruct", func(r *rand.Rand) (interface{}, map[string]interface{}) {
		m := map[string]int{rstr(r, "k"): 1}
		return &m, map[string]interface{}{}
	}},
	{"unmarshalable", func(r *rand.Rand) (interface{}, map[string]interface{}) {
		// what a YAML decoder produces for a nested mapping: not representable by encoding/json
		p := pIface{Any: map[interface{}]interface{}{1: rstr(r, "v")}}
		return p, nil // nil: the tagged parameters cannot be captured at all
	}},
}

func shapeIndex(name string) int {
	for i, s := range shapes {
		if s.name == name {
			return i
		}
	}
	return -1
}
