// Driver for TCCBranch.tla (C05): replays TLC-generated prepare / phase-two scenarios against the real
// tcc.NewTCCServiceProxy / proxy.Prepare and the real phase-two dispatch (OnMessage -> processors ->
// TCC resource manager -> user methods), with the in-process coordinator stand-in behind a fake getty
// session, and records one trace per (scenario, parameter shape).
//
// Observables: the BranchRegisterRequest the coordinator receives and its answer, the instant the
// user's try starts, what Prepare returns (or that it panicked), every phase-two request, the user
// method that ran with which xid / branch id / action context, and the reported status.
package main

import (
	"context"
	"encoding/json"
	"errors"
	"fmt"
	"math"
	"math/rand"
	"reflect"
	"sort"
	"strings"
	"sync"
	"time"

	"seata.apache.org/seata-go/pkg/protocol/branch"
	"seata.apache.org/seata-go/pkg/protocol/message"
	"seata.apache.org/seata-go/pkg/rm/tcc"
	"seata.apache.org/seata-go/pkg/tm"

	"verif/harness/common"
	"verif/harness/tc"
	"verif/harness/trace"
)

type step struct {
	Op     string `json:"op"`
	A      string `json:"a,omitempty"`
	R      string `json:"r,omitempty"`
	O      string `json:"o,omitempty"`
	Kind   string `json:"kind,omitempty"`
	Target string `json:"target,omitempty"`
	Data   string `json:"data,omitempty"`
	Uo     string `json:"uo,omitempty"`
}

type scenario struct {
	Steps []step `json:"steps"`
	Nact  int    `json:"nact"`
}

// ------------------------------------------------------------------------------------------------
// recording actions

type recorder struct {
	abs string // "a1" | "a2"
	r   *runner
}

func (c *recorder) try(ctx context.Context, params interface{}) (bool, error) {
	return c.r.onTry(c, ctx, params)
}

func (c *recorder) p2(kind string, ctx context.Context, bac *tm.BusinessActionContext) (bool, error) {
	return c.r.onP2(c, kind, ctx, bac)
}

// declaration style 1: rm.TwoPhaseInterface
type ifaceAction struct {
	name string
	rec  *recorder
}

func (a *ifaceAction) Prepare(ctx context.Context, params interface{}) (bool, error) {
	return a.rec.try(ctx, params)
}
func (a *ifaceAction) Commit(ctx context.Context, bac *tm.BusinessActionContext) (bool, error) {
	return a.rec.p2("commit", ctx, bac)
}
func (a *ifaceAction) Rollback(ctx context.Context, bac *tm.BusinessActionContext) (bool, error) {
	return a.rec.p2("rollback", ctx, bac)
}
func (a *ifaceAction) GetActionName() string { return a.name }

// declaration style 2/3: a struct whose func fields carry the seataTwoPhaseAction tags.  The action
// name lives in a struct tag, so the type is built per action with reflect.StructOf (field order and
// names vary with `variant`).
func newTaggedAction(name string, rec *recorder, variadic bool, variant int) interface{} {
	var prep interface{}
	if variadic {
		prep = func(ctx context.Context, params ...interface{}) (bool, error) {
			var p interface{}
			if len(params) > 0 {
				p = params[0]
			}
			return rec.try(ctx, p)
		}
	} else {
		prep = func(ctx context.Context, params interface{}) (bool, error) { return rec.try(ctx, params) }
	}
	commit := func(ctx context.Context, bac *tm.BusinessActionContext) (bool, error) {
		return rec.p2("commit", ctx, bac)
	}
	rollback := func(ctx context.Context, bac *tm.BusinessActionContext) (bool, error) {
		return rec.p2("rollback", ctx, bac)
	}
	type fld struct {
		name string
		fn   interface{}
		tag  string
	}
	nameTag := ` seataTwoPhaseServiceName:"` + name + `"`
	fs := []fld{
		{"TryIt", prep, `seataTwoPhaseAction:"prepare"` + nameTag},
		{"Confirm", commit, `seataTwoPhaseAction:"commit"`},
		{"Cancel", rollback, `seataTwoPhaseAction:"rollback"`},
	}
	switch variant % 3 {
	case 1: // rollback declared before commit, both before prepare
		fs = []fld{fs[2], fs[1], fs[0]}
	case 2: // misleading field names: the tag decides
		fs[1].name, fs[2].name = "Rollback", "Commit"
	}
	sf := []reflect.StructField{{Name: "Note", Type: reflect.TypeOf("")}}
	for _, f := range fs {
		sf = append(sf, reflect.StructField{Name: f.name, Type: reflect.TypeOf(f.fn), Tag: reflect.StructTag(f.tag)})
	}
	v := reflect.New(reflect.StructOf(sf))
	for i, f := range fs {
		v.Elem().Field(i + 1).Set(reflect.ValueOf(f.fn))
	}
	return v.Interface()
}

var styles = []string{"iface", "tagged", "taggedvariadic"}

// ------------------------------------------------------------------------------------------------
// JSON normalisation

func norm(v interface{}) (interface{}, bool) {
	b, err := json.Marshal(v)
	if err != nil {
		return nil, false
	}
	var out interface{}
	if err := json.Unmarshal(b, &out); err != nil {
		return nil, false
	}
	return out, true
}

func jsonEq(a, b interface{}) bool {
	na, ok1 := norm(a)
	nb, ok2 := norm(b)
	if !ok1 || !ok2 {
		return false
	}
	// an absent map and an empty map are the same JSON-wise for an action context
	if ma, ok := na.(map[string]interface{}); ok && len(ma) == 0 {
		na = nil
	}
	if mb, ok := nb.(map[string]interface{}); ok && len(mb) == 0 {
		nb = nil
	}
	return reflect.DeepEqual(na, nb)
}

var sysKeys = map[string]bool{"action-start-time": true, "host-name": true, "actionName": true}

// actionContextOf extracts the action context object of application data (nil, false if there is none)
func actionContextOf(data []byte) (map[string]interface{}, bool) {
	var top map[string]interface{}
	if err := json.Unmarshal(data, &top); err != nil {
		return nil, false
	}
	ac, ok := top["actionContext"].(map[string]interface{})
	return ac, ok
}

// dataCarries: the application data, read as JSON, carries exactly the tagged parameters `want`
// (system entries the framework adds - method names, start time, host, action name - are ignored)
func dataCarries(data []byte, want map[string]interface{}) bool {
	if want == nil {
		return false
	}
	ac, ok := actionContextOf(data)
	if !ok {
		return false
	}
	user := map[string]interface{}{}
	for k, v := range ac {
		if sysKeys[k] || strings.HasPrefix(k, "sys::") {
			continue
		}
		user[k] = v
	}
	return jsonEq(user, want)
}

// ------------------------------------------------------------------------------------------------

type ev struct {
	seq  int64
	name string
	kv   []interface{}
}

type prepGroup struct {
	a       string   // abstract action
	reps    []string // scripted register replies, in order
	tryOut  string
	shape   int
	params  interface{}
	want    map[string]interface{}
	granted int64 // concrete branch id granted (0: none)
	data    []byte
	gotReq  bool
}

type delivery struct {
	st       step
	data     []byte
	uoBool   bool
	panicked bool
	panicMsg string
	invoked  int
	sig      string
	captured []byte // the application data of the target's prepare (what malformed data was derived from)
}

type runner struct {
	i       int
	sc      scenario
	seed    int64
	rnd     *rand.Rand
	shape   int
	style   int
	bare    bool
	coord   *tc.TC
	sess    *tc.Session
	mu      sync.Mutex
	evs     []ev
	names   map[string]string // concrete resource id -> abstract
	conc    map[string]string // abstract -> concrete
	xid     string
	xids    map[string]int
	bids    map[int64]int
	nbid    int
	preps   []*prepGroup
	curP    *prepGroup
	curD    *delivery
	lastD   []byte // application data of the latest register request
	psig    string
	styleOf map[string]string
	nforgn  int
}

var (
	curMu     sync.Mutex
	curRunner *runner
	uniq      int64
)

func (r *runner) add(seq int64, name string, kv ...interface{}) {
	r.mu.Lock()
	r.evs = append(r.evs, ev{seq, name, kv})
	r.mu.Unlock()
}

func (r *runner) absXid(x string) int {
	if v, ok := r.xids[x]; ok {
		return v
	}
	return -1
}

func (r *runner) absBid(b int64) int {
	if v, ok := r.bids[b]; ok {
		return v
	}
	return -1
}

func (r *runner) absRes(id string) string {
	if v, ok := r.names[id]; ok {
		return v
	}
	return "other"
}

// the coordinator's script: runs synchronously inside the client's WritePkg
func script(kind string, m tc.Msg) (tc.Reply, bool) {
	req, ok := m.Rpc.Body.(message.BranchRegisterRequest)
	if !ok {
		return tc.Reply{}, false
	}
	curMu.Lock()
	r := curRunner
	curMu.Unlock()
	if r == nil {
		return tc.Reply{}, false
	}
	p := r.curP
	want := map[string]interface{}(nil)
	sig := "noprepare"
	if p != nil {
		want = p.want
		sig = r.psig
		p.gotReq = true
		p.data = append([]byte(nil), req.ApplicationData...)
	}
	r.lastD = append([]byte(nil), req.ApplicationData...)
	bt := "TCC"
	if req.BranchType != branch.BranchTypeTCC {
		bt = fmt.Sprintf("type%d", req.BranchType)
	}
	r.add(m.Seq, "RegisterReq", "res", r.absRes(req.ResourceId), "bt", bt, "dataok", dataCarries(req.ApplicationData, want),
		"xidok", req.Xid == r.xid, "nolock", req.LockKey == "", "sig", sig)
	rep := "ok"
	if p != nil && len(p.reps) > 0 {
		rep, p.reps = p.reps[0], p.reps[1:]
	}
	switch rep {
	case "ok":
		r.nbid++
		bid := int64(r.rnd.Int63n(1<<40)) + 1000 + int64(r.nbid)
		r.bids[bid] = r.nbid
		if p != nil {
			p.granted = bid
		}
		r.add(tc.NextSeq(), "RegisterRep", "r", "ok", "bid", r.nbid, "sig", sig)
		return tc.Reply{Body: message.BranchRegisterResponse{AbstractTransactionResponse: message.AbstractTransactionResponse{
			AbstractResultMessage: message.AbstractResultMessage{ResultCode: message.ResultCodeSuccess}}, BranchId: bid}}, true
	case "fail":
		r.add(tc.NextSeq(), "RegisterRep", "r", "fail", "bid", 0, "sig", sig)
		return tc.Reply{Body: message.BranchRegisterResponse{AbstractTransactionResponse: message.AbstractTransactionResponse{
			AbstractResultMessage: tc.FailResult("branch register refused")}}}, true
	default:
		r.add(tc.NextSeq(), "RegisterRep", "r", "neterr", "bid", 0, "sig", sig)
		return tc.Reply{NetErr: errors.New("write tcp: connection reset by peer")}, true
	}
}

func (r *runner) onTry(c *recorder, ctx context.Context, params interface{}) (bool, error) {
	seq := tc.NextSeq()
	p := r.curP
	out := "nil"
	if p != nil {
		out = p.tryOut
	}
	// what try can see of its branch: not part of the property, recorded for information only
	bidok := false
	if bac := tm.GetBusinessActionContext(ctx); bac != nil && p != nil {
		bidok = bac.BranchId == p.granted
	}
	r.add(seq, "Try", "a", c.abs, "o", out, "bidseen", bidok, "sig", r.psig)
	if out == "err" {
		return false, errors.New("try failed")
	}
	return true, nil
}

func (r *runner) onP2(c *recorder, kind string, ctx context.Context, bac *tm.BusinessActionContext) (bool, error) {
	seq := tc.NextSeq()
	d := r.curD
	x, b, ctxeq := -1, -1, false
	if bac != nil {
		if tm.GetXID(ctx) == bac.Xid {
			x = r.absXid(bac.Xid)
		}
		b = r.absBid(bac.BranchId)
		if d != nil {
			ref := r.dataFor(d)
			if d.st.Data != "captured" && d.st.Data != "empty" {
				// malformed data: the only context the user's method may legitimately see is the captured one
				ref = d.captured
			}
			want, _ := actionContextOf(ref)
			ctxeq = jsonEq(bac.ActionContext, want)
		}
	}
	sig := "nodelivery"
	uo, ub := "nil", true
	if d != nil {
		sig, uo, ub = d.sig, d.st.Uo, d.uoBool
		d.invoked++
	}
	r.add(seq, "Invoke", "kind", kind, "a", c.abs, "xid", x, "bid", b, "ctxeq", ctxeq, "sig", sig)
	if uo == "err" {
		return ub, errors.New("phase two failed")
	}
	return ub, nil
}

// ------------------------------------------------------------------------------------------------

var malformed = []struct {
	name string
	mk   func(captured []byte) []byte
}{
	{"notjson", func(c []byte) []byte { return []byte("this is not json") }},
	{"truncated", func(c []byte) []byte {
		if len(c) > 4 {
			return c[:len(c)/2]
		}
		return []byte(`{"actionContext":`)
	}},
	{"array", func(c []byte) []byte { return []byte(`[1,2,3]`) }},
	{"ctxstring", func(c []byte) []byte { return []byte(`{"actionContext":"oops"}`) }},
	{"ctxnull", func(c []byte) []byte { return []byte(`{"actionContext":null}`) }},
	{"ctxarray", func(c []byte) []byte { return []byte(`{"actionContext":[1]}`) }},
	{"binary", func(c []byte) []byte { return []byte{0x00, 0xff, 0xfe, '{'} }},
}

func (r *runner) capturedFor(target string) []byte {
	for j := len(r.preps) - 1; j >= 0; j-- {
		if r.preps[j].a == target && r.preps[j].gotReq {
			return r.preps[j].data
		}
	}
	if r.lastD != nil {
		return r.lastD
	}
	return []byte(`{"actionContext":{}}`)
}

func (r *runner) dataFor(d *delivery) []byte { return d.data }

func statusName(s branch.BranchStatus) string {
	switch s {
	case branch.BranchStatusPhasetwoCommitted:
		return "committed"
	case branch.BranchStatusPhasetwoRollbacked:
		return "rollbacked"
	case branch.BranchStatusPhasetwoCommitFailedRetryable:
		return "commit_retry"
	case branch.BranchStatusPhasetwoRollbackFailedRetryable:
		return "rollback_retry"
	case branch.BranchStatusPhasetwoCommitFailedUnretryable:
		return "commit_unretry"
	case branch.BranchStatusPhasetwoRollbackFailedUnretryable:
		return "rollback_unretry"
	case branch.BranchStatusUnknown:
		return "unknown"
	}
	return fmt.Sprintf("other%d", int(s))
}

func (r *runner) deliver(st step, idx int) {
	d := &delivery{st: st}
	// a user method that reports no error may still return false: the property speaks of the error only
	d.uoBool = r.rnd.Intn(3) != 0
	rid := r.conc[st.Target]
	known := "known"
	if rid == "" {
		rid = fmt.Sprintf("c05-unregistered-%d-%d", r.i, idx)
		known = "unknown"
	}
	// ids: normally the transaction's xid and the branch granted to the target's prepare; sometimes
	// ids this client never saw (the dispatch is by resource id; the ids are passed through)
	xid := r.xid
	if r.rnd.Intn(5) == 0 {
		r.nforgn++
		xid = fmt.Sprintf("10.0.0.9:8091:%d%03d", 5000+r.i, r.nforgn)
		r.xids[xid] = 1 + r.nforgn
	}
	var bid int64
	for j := len(r.preps) - 1; j >= 0; j-- {
		if r.preps[j].a == st.Target && r.preps[j].granted != 0 {
			bid = r.preps[j].granted
			break
		}
	}
	if bid == 0 || r.rnd.Intn(5) == 0 {
		r.nforgn++
		bid = int64(r.rnd.Int63n(1<<40)) + 1<<41
		r.bids[bid] = 100 + r.nforgn
	}
	captured := r.capturedFor(st.Target)
	var data []byte
	dsig := st.Data
	switch st.Data {
	case "captured":
		data = captured
	case "empty":
		if r.rnd.Intn(2) == 0 {
			data = nil
		} else {
			data = []byte{}
		}
	default:
		m := malformed[(r.i+idx+int(r.seed))%len(malformed)]
		data = m.mk(captured)
		dsig = "malformed:" + m.name
	}
	d.data = data
	d.captured = captured
	d.sig = fmt.Sprintf("%s/%s/data=%s/uo=%s", st.Kind, known, dsig, st.Uo)
	if st.Uo == "nil" && !d.uoBool {
		d.sig += ",false"
	}
	r.mu.Lock()
	r.curD = d
	r.mu.Unlock()
	r.add(tc.NextSeq(), "Deliver", "kind", st.Kind, "target", st.Target, "xid", r.absXid(xid), "bid", r.absBid(bid),
		"data", st.Data, "uo", st.Uo, "sig", d.sig)
	var status branch.BranchStatus
	var ok bool
	if st.Kind == "commit" {
		status, ok = r.coord.BranchCommit(r.sess, xid, bid, branch.BranchTypeTCC, rid, data, 10*time.Second)
	} else {
		status, ok = r.coord.BranchRollback(r.sess, xid, bid, branch.BranchTypeTCC, rid, data, 10*time.Second)
	}
	r.mu.Lock()
	panicked, pmsg := d.panicked, d.panicMsg
	r.mu.Unlock()
	switch {
	case panicked:
		r.add(tc.NextSeq(), "Panic", "msg", pmsg, "sig", d.sig)
	case ok:
		r.add(tc.NextSeq(), "Reply", "s", statusName(status), "sig", d.sig)
	default:
		r.add(tc.NextSeq(), "Reply", "s", "none", "sig", d.sig)
	}
	r.mu.Lock()
	r.curD = nil
	r.mu.Unlock()
}

func (r *runner) prepare(ctx context.Context, p *prepGroup, proxy *tcc.TCCServiceProxy) {
	r.curP = p
	regs := "ok"
	if len(p.reps) > 0 {
		regs = strings.Join(p.reps, "+")
	}
	ctxk := "wgt"
	if r.bare {
		ctxk = "bare"
	}
	r.psig = fmt.Sprintf("shape=%s/style=%s/ctx=%s/reg=%s", shapes[p.shape].name, r.styleOf[p.a], ctxk, regs)
	r.add(tc.NextSeq(), "Prepare", "a", p.a, "shape", shapes[p.shape].name, "sig", r.psig)
	func() {
		defer func() {
			if rec := recover(); rec != nil {
				r.add(tc.NextSeq(), "PreparePanic", "msg", fmt.Sprint(rec), "sig", r.psig)
			}
		}()
		_, err := proxy.Prepare(ctx, p.params)
		v := "nil"
		if err != nil {
			v = "err"
		}
		r.add(tc.NextSeq(), "Return", "v", v, "sig", r.psig+"/try="+p.tryOut)
	}()
	r.curP = nil
}

func (r *runner) run(t *trace.T) {
	r.names, r.conc = map[string]string{}, map[string]string{}
	r.xids, r.bids = map[string]int{}, map[int64]int{}
	r.styleOf = map[string]string{}
	curMu.Lock()
	curRunner = r
	curMu.Unlock()
	defer func() {
		curMu.Lock()
		curRunner = nil
		curMu.Unlock()
	}()
	r.coord.Observe = func(rec tc.Record) {
		if rec.Kind == "PANIC" {
			r.mu.Lock()
			if r.curD != nil {
				r.curD.panicked = true
				r.curD.panicMsg = rec.Note
			}
			r.mu.Unlock()
		}
	}
	// the registered action set of this scenario (names unique in the process: the resource manager is global)
	proxies := map[string]*tcc.TCCServiceProxy{}
	var acts []string
	for k := 1; k <= r.sc.Nact; k++ {
		abs := fmt.Sprintf("a%d", k)
		uniq++
		name := fmt.Sprintf("c05-s%d-%d-%s", r.seed, uniq, abs)
		rec := &recorder{abs: abs, r: r}
		var svc interface{}
		r.styleOf[abs] = styles[(r.style+k-1)%3]
		switch (r.style + k - 1) % 3 {
		case 0:
			svc = &ifaceAction{name: name, rec: rec}
		case 1:
			svc = newTaggedAction(name, rec, false, r.i+k)
		default:
			svc = newTaggedAction(name, rec, true, r.i+k)
		}
		if (r.i+k)%2 == 1 {
			// the action name was registered before with another service object (a re-created service, a second
			// construction of the same component): the later registration is the one whose try runs, so it is the
			// one phase two must reach.  What the stale object is asked to do is recorded under a name no scenario knows.
			stale := &recorder{abs: "stale-" + abs, r: r}
			var old interface{}
			switch (r.style + k - 1) % 3 {
			case 0:
				old = &ifaceAction{name: name, rec: stale}
			case 1:
				old = newTaggedAction(name, stale, false, r.i+k+7)
			default:
				old = newTaggedAction(name, stale, true, r.i+k+7)
			}
			if _, err := tcc.NewTCCServiceProxy(old); err != nil {
				common.Fatal("NewTCCServiceProxy(%s, first registration): %v", name, err)
			}
		}
		proxy, err := tcc.NewTCCServiceProxy(svc)
		if err != nil {
			common.Fatal("NewTCCServiceProxy(%s): %v", name, err)
		}
		proxies[abs] = proxy
		r.names[name], r.conc[abs] = abs, name
		acts = append(acts, abs)
	}
	t.Add("Start", "acts", acts, "sig", "start")

	// group the steps
	var dels []step
	for _, s := range r.sc.Steps {
		switch s.Op {
		case "prepare":
			sh := r.shape
			if len(r.preps) > 0 {
				sh = pickShape(mix(uint64(r.i), uint64(r.seed), uint64(100+len(r.preps))))
			}
			params, want := shapes[sh].build(r.rnd)
			r.preps = append(r.preps, &prepGroup{a: s.A, tryOut: "nil", shape: sh, params: params, want: want})
		case "regrep":
			if n := len(r.preps); n > 0 {
				r.preps[n-1].reps = append(r.preps[n-1].reps, s.R)
			}
		case "try":
			if n := len(r.preps); n > 0 {
				r.preps[n-1].tryOut = s.O
			}
		case "deliver":
			dels = append(dels, s)
		}
	}
	body := func(ctx context.Context) error {
		r.xid = tm.GetXID(ctx)
		r.xids[r.xid] = 1
		for _, p := range r.preps {
			r.prepare(ctx, p, proxies[p.a])
		}
		return nil
	}
	if r.bare {
		ctx := tm.InitSeataContext(context.Background())
		uniq++
		tm.SetXID(ctx, fmt.Sprintf("10.0.0.1:8091:%d%05d", 70+r.seed, uniq))
		_ = body(ctx)
	} else {
		err := tm.WithGlobalTx(context.Background(), &tm.GtxConfig{Name: fmt.Sprintf("c05-%d", r.i), Timeout: 30 * time.Second}, body)
		if err != nil {
			r.add(tc.NextSeq(), "TxError", "sig", "tx")
		}
	}
	for idx, s := range dels {
		r.deliver(s, idx)
	}
	r.add(math.MaxInt64, "End", "sig", "end")
	r.mu.Lock()
	sort.SliceStable(r.evs, func(a, b int) bool { return r.evs[a].seq < r.evs[b].seq })
	for _, e := range r.evs {
		t.Add(e.name, e.kv...)
	}
	r.mu.Unlock()
	r.coord.ClearLog()
}

// randomScenario: longer sequences than the enumerated ones (seeded)
func randomScenario(rnd *rand.Rand) scenario {
	sc := scenario{Nact: 1 + rnd.Intn(2)}
	pick := func(xs ...string) string { return xs[rnd.Intn(len(xs))] }
	act := func() string { return fmt.Sprintf("a%d", 1+rnd.Intn(sc.Nact)) }
	for n := 1 + rnd.Intn(3); n > 0; n-- {
		sc.Steps = append(sc.Steps, step{Op: "prepare", A: act()})
		rep := pick("ok", "ok", "ok", "fail", "neterr")
		sc.Steps = append(sc.Steps, step{Op: "regrep", R: rep})
		if rep == "ok" {
			sc.Steps = append(sc.Steps, step{Op: "try", O: pick("nil", "nil", "err")})
		}
	}
	for n := rnd.Intn(9); n > 0; n-- {
		tg := act()
		if rnd.Intn(5) == 0 {
			tg = "zz"
		}
		sc.Steps = append(sc.Steps, step{Op: "deliver", Kind: pick("commit", "rollback"), Target: tg,
			Data: pick("captured", "captured", "empty", "malformed"), Uo: pick("nil", "nil", "err")})
	}
	return sc
}

// pickShape: one scenario in eight gets one of the edge shapes (nil / typed-nil / unencodable
// parameters), the others one of the ordinary shapes
func pickShape(h uint64) int {
	var edge, plain []int
	for i, s := range shapes {
		if edgeShapes[s.name] {
			edge = append(edge, i)
		} else {
			plain = append(plain, i)
		}
	}
	if (h>>50)%8 == 0 {
		return edge[int(h%uint64(len(edge)))]
	}
	return plain[int(h%uint64(len(plain)))]
}

var edgeShapes = map[string]bool{"none": true, "ctxptrnil": true, "ctxptrunexp": true, "nilstructptr": true,
	"ptrnonstruct": true, "unmarshalable": true}

func mix(a, b, c uint64) uint64 {
	x := a*0x9E3779B97F4A7C15 ^ (b+1)*0xC2B2AE3D27D4EB4F ^ (c+1)*0x165667B19E3779F9
	x ^= x >> 29
	x *= 0xBF58476D1CE4E5B9
	x ^= x >> 32
	return x
}

func classOf(sc scenario, shape, style string, bare bool) string {
	var b strings.Builder
	fmt.Fprintf(&b, "n=%d %s/%s", sc.Nact, shape, style)
	if bare {
		b.WriteString("/bare")
	}
	for _, s := range sc.Steps {
		switch s.Op {
		case "prepare":
			b.WriteString(" P:" + s.A)
		case "regrep":
			b.WriteString(" r:" + s.R)
		case "try":
			b.WriteString(" t:" + s.O)
		case "deliver":
			fmt.Fprintf(&b, " D:%s>%s/%s/%s", s.Kind[:1], s.Target, s.Data[:3], s.Uo)
		}
	}
	return b.String()
}

func main() {
	o := common.Parse()
	cfg := tc.DefaultConfig()
	cfg.LoadBalance = "RandomLoadBalance"
	tc.InitClient(cfg)
	coord := tc.NewTC("10.0.0.1:8091")
	coord.Script = script
	sess := coord.OpenSession("s1")
	time.Sleep(50 * time.Millisecond) // the RegisterTM the client sends on open

	var raws []json.RawMessage
	if o.Scenarios != "" {
		var err error
		raws, err = trace.ReadScenarios(o.Scenarios)
		if err != nil {
			common.Fatal("%v", err)
		}
	}
	w, err := trace.NewWriter(o.Out)
	if err != nil {
		common.Fatal("%v", err)
	}
	w.SetBase(o.TraceBase())
	nRandom := 150
	perScenario := 1
	if o.Thorough() {
		nRandom, perScenario = 600, 2
	}
	total := len(raws) + nRandom
	ran := 0
	for i := 0; i < total; i++ {
		if !o.Want(i) {
			continue
		}
		var sc scenario
		if i < len(raws) {
			if err := json.Unmarshal(raws[i], &sc); err != nil {
				common.Fatal("scenario %d: %v", i, err)
			}
		} else {
			sc = randomScenario(o.Rand(int64(i) * 31))
		}
		for rep := 0; rep < perScenario; rep++ {
			// the driver's own dimensions (parameter shape, declaration style, kind of context) are spread
			// over the scenarios by a hash of (index, seed, repetition): deterministic, uncorrelated with
			// the enumeration order
			h := mix(uint64(i), uint64(o.Seed), uint64(rep))
			sh := pickShape(h)
			style := int((h >> 20) % uint64(len(styles)))
			bare := (h>>40)%3 == 0
			r := &runner{i: i, sc: sc, seed: o.Seed, rnd: o.Rand(int64(i)*131 + int64(rep)), shape: sh, style: style, bare: bare,
				coord: coord, sess: sess}
			t := w.Begin(map[string]interface{}{"i": i, "sc": sc, "shape": shapes[sh].name, "style": styles[style], "bare": bare},
				classOf(sc, shapes[sh].name, styles[style], bare))
			done := make(chan struct{})
			go func() {
				defer close(done)
				r.run(t)
			}()
			select {
			case <-done:
			case <-time.After(120 * time.Second):
				common.Fatal("scenario %d hangs", i)
			}
			t.Close()
			ran++
		}
	}
	if err := w.Close(); err != nil {
		common.Fatal("%v", err)
	}
	fmt.Printf("DRIVER-OK traces=%d scenarios=%d random=%d\n", w.Count(), len(raws), nRandom)
}
