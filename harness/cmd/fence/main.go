// Driver for TCCFence.tla (C06): replays TLC-generated delivery sequences (prepare / commit / rollback
// of one or several branches sharing the fence table, with an injected database failure at a chosen
// client statement, and racing pairs with a statement interleaving) against the real TCC fence over
// memsql, and records after every delivery what the caller and the database can observe: the error
// returned, the tcc_fence_log rows and the business effect counters.
//
// Two usages of the fence (MODE=plain|driver):
//
//	plain:  tx := db.BeginTx; fence.WithFence(ctx, tx, callback); commit on nil / rollback on error
//	driver: sql.Open on a fence.FenceDriver{TargetDriver: memsql.Driver{}}; db.BeginTx runs the fence
//	        in a second transaction that the driver pairs with the business transaction
package main

import (
	"context"
	"database/sql"
	"database/sql/driver"
	"encoding/json"
	"fmt"
	"os"
	"strings"
	"sync"
	"time"

	"seata.apache.org/seata-go/pkg/rm/tcc/fence"
	"seata.apache.org/seata-go/pkg/rm/tcc/fence/enum"
	"seata.apache.org/seata-go/pkg/tm"

	"verif/harness/common"
	"verif/harness/memsql"
	"verif/harness/tc"
	"verif/harness/trace"
)

type step struct {
	Op     string   `json:"op"`
	B      int      `json:"b"`
	Phase  string   `json:"phase,omitempty"`
	Fail   int      `json:"fail,omitempty"`
	Phases []string `json:"phases,omitempty"`
	Order  []int    `json:"order,omitempty"`
}

type scenario struct {
	NB    int    `json:"nb"`
	Steps []step `json:"steps"`
}

const (
	fenceDDL = "CREATE TABLE tcc_fence_log (xid varchar(128) NOT NULL, branch_id bigint NOT NULL, " +
		"action_name varchar(64) NOT NULL, status tinyint NOT NULL, gmt_create datetime(3) NOT NULL, " +
		"gmt_modified datetime(3) NOT NULL, PRIMARY KEY (xid, branch_id), KEY idx_gmt_modified (gmt_modified), " +
		"KEY idx_status (status))"
	effDDL = "CREATE TABLE effects (xid varchar(128) NOT NULL, branch_id bigint NOT NULL, phase varchar(16) NOT NULL, " +
		"n int NOT NULL, PRIMARY KEY (xid, branch_id, phase))"
	bizSQL = "INSERT INTO effects (xid, branch_id, phase, n) VALUES (?, ?, ?, 1) ON DUPLICATE KEY UPDATE n = n + 1"
	// how long a released statement may take before its connection is considered to be waiting for a lock
	blockT = 4 * time.Millisecond
)

var (
	phases     = []string{"prepare", "commit", "rollback"}
	statusName = map[string]string{"1": "tried", "2": "committed", "3": "rollbacked", "4": "suspended"}
)

func phaseOf(p string) enum.FencePhase {
	switch p {
	case "prepare":
		return enum.FencePhasePrepare
	case "commit":
		return enum.FencePhaseCommit
	case "rollback":
		return enum.FencePhaseRollback
	}
	return enum.FencePhaseNotExist
}

type lab struct {
	mode string
	srv  *memsql.Server
	db   *sql.DB // plain memsql (mode plain) or the fence driver over memsql (mode driver)
	xid  string
	nb   int
	// netFault: injected database failures of this scenario are not MySQL server errors but what a broken
	// network gives (an i/o timeout from the driver)
	netFault bool
}

func bid(b int) int64 { return int64(100 + b) }

func (l *lab) ctx(b int, phase string) context.Context {
	ctx := tm.InitSeataContext(context.Background())
	tm.SetXID(ctx, l.xid)
	tm.SetTxName(ctx, "c06")
	tm.SetFencePhase(ctx, phaseOf(phase))
	tm.SetBusinessActionContext(ctx, &tm.BusinessActionContext{Xid: l.xid, BranchId: bid(b), ActionName: "act"})
	return ctx
}

func (l *lab) reset(xid string, nb int) {
	l.srv.Reset()
	l.srv.MustExec(fenceDDL)
	l.srv.MustExec(effDDL)
	l.xid, l.nb = xid, nb
}

// state reads the committed tables back: per branch the status name of its fence row ("none": no row)
// and the [try, confirm, cancel] effect counters; extra counts rows that belong to no branch of the
// scenario or carry an unknown status.
func (l *lab) state() (rec []string, eff [][]int, extra int) {
	rec = make([]string, l.nb)
	eff = make([][]int, l.nb)
	for i := range rec {
		rec[i] = "none"
		eff[i] = []int{0, 0, 0}
	}
	snap := l.srv.Snapshot("tcc_fence_log", "effects")
	idx := func(row map[string]interface{}) int {
		if fmt.Sprint(row["xid"]) != l.xid {
			return -1
		}
		for b := 1; b <= l.nb; b++ {
			if fmt.Sprint(row["branch_id"]) == fmt.Sprint(bid(b)) {
				return b - 1
			}
		}
		return -1
	}
	for _, row := range snap["tcc_fence_log"] {
		i := idx(row)
		name, ok := statusName[fmt.Sprint(row["status"])]
		if i < 0 || !ok || rec[i] != "none" || fmt.Sprint(row["action_name"]) != "act" {
			extra++
			continue
		}
		rec[i] = name
	}
	for _, row := range snap["effects"] {
		i := idx(row)
		p := -1
		for k, ph := range phases {
			if fmt.Sprint(row["phase"]) == ph {
				p = k
			}
		}
		n, ok := row["n"].(int64)
		if i < 0 || p < 0 || !ok {
			extra++
			continue
		}
		eff[i][p] = int(n)
	}
	return
}

// hitClass returns the class of the statement the injected fault hit and its connection.
func (l *lab) hitClass() (string, int) {
	for _, e := range l.srv.Journal() {
		if strings.Contains(e.Err, "memsql injected fault") {
			return e.Class, e.Conn
		}
	}
	return "", 0
}

// idle: no open client connection is inside a transaction or holds locks.  skip: a connection whose
// ROLLBACK statement was failed by the fault plan (memsql keeps its transaction open; a real server
// would have dropped the connection) is not counted.
func (l *lab) idle(skip int) bool {
	for _, cs := range l.srv.ConnStates() {
		if cs.Closed || cs.Conn == skip {
			continue
		}
		if cs.InTx || cs.Locks > 0 || cs.XA != "" {
			return false
		}
	}
	return true
}

func discard(c *sql.Conn) {
	_ = c.Raw(func(interface{}) error { return driver.ErrBadConn })
}

// one delivery, the documented plain usage
func (l *lab) plain(c *sql.Conn, b int, phase string) error {
	ctx := l.ctx(b, phase)
	tx, err := c.BeginTx(ctx, nil)
	if err != nil {
		return err
	}
	werr := fence.WithFence(ctx, tx, func() error {
		_, e := tx.Exec(bizSQL, l.xid, bid(b), phase)
		return e
	})
	if werr == nil {
		if err := tx.Commit(); err != nil {
			discard(c)
			return err
		}
		return nil
	}
	if err := tx.Rollback(); err != nil {
		discard(c) // a client whose ROLLBACK failed gives the connection up
	}
	return werr
}

// one delivery through the fence driver: BeginTx performs the fence, the business statement runs in
// the target transaction, Commit / Rollback end both
func (l *lab) viaDriver(b int, phase string) error {
	ctx := l.ctx(b, phase)
	tx, err := l.db.BeginTx(ctx, nil)
	if err != nil {
		return err
	}
	if _, err := tx.ExecContext(ctx, bizSQL, l.xid, bid(b), phase); err != nil {
		_ = tx.Rollback()
		return err
	}
	return tx.Commit()
}

func (l *lab) deliver(b int, phase string, fail int) (err error, fired bool, hit string, hitConn int) {
	before := l.srv.FaultsFired()
	l.srv.ClearJournal()
	if fail > 0 {
		f := memsql.Fault{Nth: fail}
		if l.netFault {
			f.Err = fmt.Errorf("read tcp 10.0.0.9:51122->10.0.0.5:3306: i/o timeout (memsql injected fault)")
		}
		l.srv.AddFault(f)
	}
	if l.mode == "driver" {
		err = l.viaDriver(b, phase)
	} else {
		c, cerr := l.db.Conn(context.Background())
		if cerr != nil {
			common.Fatal("conn: %v", cerr)
		}
		err = l.plain(c, b, phase)
		c.Close()
	}
	l.srv.ClearFaults()
	fired = l.srv.FaultsFired() > before
	if fired {
		hit, hitConn = l.hitClass()
	}
	return
}

func errName(err error) string {
	if err != nil {
		return "err"
	}
	return "ok"
}

func delta(a, b []int) string { return fmt.Sprintf("%d%d%d", b[0]-a[0], b[1]-a[1], b[2]-a[2]) }

func othersChanged(b int, rec0, rec1 []string, eff0, eff1 [][]int) string {
	for i := range rec0 {
		if i == b-1 {
			continue
		}
		if rec0[i] != rec1[i] || delta(eff0[i], eff1[i]) != "000" {
			return ",other=changed"
		}
	}
	return ""
}

// ---------------------------------------------------------------------------------------------------
// racing pair

type racer struct {
	conn    int
	arrive  chan struct{}
	release chan struct{}
	done    chan struct{}
	err     error
}

// race runs two deliveries for branch b on two connections.  In plain mode memsql's statement gate
// releases one statement at a time in TLC's order (a connection that waits for a lock is skipped);
// in driver mode (connections are not known in advance) both run freely after a common start.
func (l *lab) race(b int, ph []string, order []int) (errs [2]error, sched []int) {
	if l.mode == "driver" {
		var wg sync.WaitGroup
		start := make(chan struct{})
		for i := 0; i < 2; i++ {
			wg.Add(1)
			go func(i int) {
				defer wg.Done()
				<-start
				errs[i] = l.viaDriver(b, ph[i])
			}(i)
		}
		close(start)
		wg.Wait()
		return
	}
	rs := [2]*racer{}
	conns := [2]*sql.Conn{}
	byConn := map[int]*racer{}
	for i := 0; i < 2; i++ {
		c, err := l.db.Conn(context.Background())
		if err != nil {
			common.Fatal("conn: %v", err)
		}
		r := &racer{arrive: make(chan struct{}, 1), release: make(chan struct{}), done: make(chan struct{})}
		if err := c.Raw(func(dc interface{}) error {
			r.conn = dc.(interface{ ID() int }).ID()
			return nil
		}); err != nil {
			common.Fatal("raw conn: %v", err)
		}
		rs[i], conns[i] = r, c
		byConn[r.conn] = r
	}
	l.srv.SetGate(func(e *memsql.Entry) error {
		if r := byConn[e.Conn]; r != nil {
			r.arrive <- struct{}{}
			<-r.release
		}
		return nil
	})
	for i := 0; i < 2; i++ {
		go func(i int) {
			rs[i].err = l.plain(conns[i], b, ph[i])
			close(rs[i].done)
		}(i)
	}
	var atGate, fin [2]bool
	note := func(i int, wait time.Duration) bool { // wait for racer i to reach its next gate or to finish
		if fin[i] || atGate[i] {
			return true
		}
		select {
		case <-rs[i].arrive:
			atGate[i] = true
			return true
		case <-rs[i].done:
			fin[i] = true
			return true
		default:
		}
		if wait <= 0 {
			return false
		}
		t := time.NewTimer(wait)
		defer t.Stop()
		select {
		case <-rs[i].arrive:
			atGate[i] = true
			return true
		case <-rs[i].done:
			fin[i] = true
			return true
		case <-t.C:
			return false
		}
	}
	pos := 0
	deadline := time.Now().Add(20 * time.Second)
	for !(fin[0] && fin[1]) {
		if time.Now().After(deadline) {
			common.Fatal("race did not finish: xid %s phases %v", l.xid, ph)
		}
		note(0, 0)
		note(1, 0)
		pick := -1
		for pos < len(order) {
			w := order[pos] - 1
			if w < 0 || w > 1 || fin[w] {
				pos++
				continue
			}
			if atGate[w] || note(w, blockT) {
				if atGate[w] {
					pick = w
					pos++
					break
				}
				continue // finished meanwhile
			}
			pos++ // waiting for a lock the rival holds: its turn is skipped
		}
		if pick < 0 {
			for i := 0; i < 2; i++ {
				if atGate[i] {
					pick = i
					break
				}
			}
		}
		if pick < 0 {
			// nobody is at the gate: whoever is left is running or waits for a lock (bounded by the lock-wait timeout)
			for i := 0; i < 2; i++ {
				if !fin[i] && note(i, 20*time.Millisecond) {
					break
				}
			}
			continue
		}
		atGate[pick] = false
		sched = append(sched, pick+1)
		rs[pick].release <- struct{}{}
		note(pick, blockT)
	}
	l.srv.SetGate(nil)
	for i := 0; i < 2; i++ {
		errs[i] = rs[i].err
		conns[i].Close()
	}
	return
}

// ---------------------------------------------------------------------------------------------------

func randomScenario(o *common.Opts, i int) scenario {
	r := o.Rand(int64(i))
	sc := scenario{NB: 2 + r.Intn(2)}
	n := 5 + r.Intn(6)
	faultAt := -1
	if r.Intn(2) == 0 {
		faultAt = r.Intn(n)
	}
	for k := 0; k < n; k++ {
		st := step{Op: "deliver", B: 1 + r.Intn(sc.NB), Phase: phases[r.Intn(3)]}
		if k == faultAt {
			st.Fail = 1 + r.Intn(7)
		}
		sc.Steps = append(sc.Steps, st)
	}
	if r.Intn(3) == 0 {
		sc.Steps = append(sc.Steps, step{Op: "race", B: 1 + r.Intn(sc.NB), Phases: []string{phases[r.Intn(3)], phases[r.Intn(3)]}})
	}
	return sc
}

func main() {
	o := common.Parse()
	tc.Quiet()
	mode := os.Getenv("MODE")
	if o.Mode != "" {
		mode = o.Mode
	}
	if mode == "" {
		mode = "plain"
	}
	host := fmt.Sprintf("fence%s%d", mode, o.ShardK)
	srv := memsql.NewServer(host)
	dsn := srv.DSNWithParams("db", "parseTime=true&interpolateParams=true")
	l := &lab{mode: mode, srv: srv}
	var err error
	switch mode {
	case "plain":
		srv.SetLockWaitTimeout(300 * time.Millisecond)
		l.db, err = sql.Open("memsql", dsn)
	case "driver":
		srv.SetLockWaitTimeout(40 * time.Millisecond)
		sql.Register("seata-fence-memsql", &fence.FenceDriver{TargetDriver: memsql.Driver{}})
		l.db, err = sql.Open("seata-fence-memsql", dsn)
	default:
		common.Fatal("unknown MODE %q", mode)
	}
	if err != nil {
		common.Fatal("open: %v", err)
	}
	var raws []json.RawMessage
	if o.Scenarios != "" {
		if raws, err = trace.ReadScenarios(o.Scenarios); err != nil {
			common.Fatal("%v", err)
		}
	}
	nrand := 300
	if o.Thorough() {
		nrand = 3000
	}
	w, err := trace.NewWriter(o.Out)
	if err != nil {
		common.Fatal("%v", err)
	}
	w.SetBase(o.TraceBase())
	total := len(raws) + nrand
	for i := 0; i < total; i++ {
		if !o.Want(i) {
			continue
		}
		var sc scenario
		src := "tlc"
		if i < len(raws) {
			if err := json.Unmarshal(raws[i], &sc); err != nil {
				common.Fatal("scenario %d: %v", i, err)
			}
		} else {
			sc = randomScenario(o, i)
			src = "random"
		}
		t := w.Begin(map[string]interface{}{"i": i, "sc": sc, "mode": mode}, fmt.Sprintf("mode=%s,src=%s,nb=%d", mode, src, sc.NB))
		run(l, t, sc, i)
		t.Close()
	}
	if err := w.Close(); err != nil {
		common.Fatal("%v", err)
	}
	fmt.Printf("DRIVER-OK traces=%d scenarios=%d random=%d mode=%s\n", w.Count(), len(raws), nrand, mode)
}

func run(l *lab, t *trace.T, sc scenario, i int) {
	l.netFault = i%2 == 1
	l.reset(fmt.Sprintf("xid-%d", i), sc.NB)
	t.Add("Init", "nb", sc.NB, "mode", l.mode, "sig", "init")
	for _, st := range sc.Steps {
		rec0, eff0, _ := l.state()
		prev := rec0[st.B-1]
		switch st.Op {
		case "deliver":
			t.Add("Deliver", "b", st.B, "phase", st.Phase, "fail", st.Fail, "sig", fmt.Sprintf("mode=%s,phase=%s", l.mode, st.Phase))
			err, fired, hit, hitConn := l.deliver(st.B, st.Phase, st.Fail)
			rec1, eff1, extra := l.state()
			skip := 0
			if hit == "rollback" {
				skip = hitConn
			}
			idle := l.idle(skip)
			sig := fmt.Sprintf("mode=%s,phase=%s,prev=%s,fail=%d,fired=%v", l.mode, st.Phase, prev, st.Fail, fired)
			if fired {
				sig += ",hit=" + hit
			}
			t.Add("Result", "err", err != nil, "fired", fired, "rec", rec1, "eff", eff1, "extra", extra, "idle", idle,
				"msg", fmt.Sprint(err),
				"sig", fmt.Sprintf("%s,out=%s/%s/%s%s", sig, errName(err), rec1[st.B-1], delta(eff0[st.B-1], eff1[st.B-1]),
					othersChanged(st.B, rec0, rec1, eff0, eff1)))
			t.Add("Idle", "idle", idle, "sig", sig+",out="+errName(err))
			if !idle || skip != 0 {
				// a transaction was left open: what follows would only measure its locks
				t.Add("End", "sig", "end")
				return
			}
		case "race":
			t.Add("Race", "b", st.B, "phases", st.Phases, "sig", fmt.Sprintf("mode=%s,race=%s+%s", l.mode, st.Phases[0], st.Phases[1]))
			l.srv.ClearJournal()
			errs, sched := l.race(st.B, st.Phases, st.Order)
			rec1, eff1, extra := l.state()
			idle := l.idle(0)
			sig := fmt.Sprintf("mode=%s,race=%s+%s,prev=%s", l.mode, st.Phases[0], st.Phases[1], prev)
			if sched == nil {
				sched = []int{}
			}
			t.Add("RaceResult", "errs", []bool{errs[0] != nil, errs[1] != nil}, "rec", rec1, "eff", eff1, "extra", extra,
				"sched", sched, "msgs", []string{fmt.Sprint(errs[0]), fmt.Sprint(errs[1])},
				"sig", fmt.Sprintf("%s,out=%s+%s/%s/%s%s", sig, errName(errs[0]), errName(errs[1]), rec1[st.B-1],
					delta(eff0[st.B-1], eff1[st.B-1]), othersChanged(st.B, rec0, rec1, eff0, eff1)))
			t.Add("Idle", "idle", idle, "sig", sig)
			if !idle {
				t.Add("End", "sig", "end")
				return
			}
		}
	}
	t.Add("End", "sig", "end")
}
