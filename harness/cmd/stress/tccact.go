package main

import (
	"context"
	"database/sql"
	"errors"
	"fmt"
	"sync"
	"sync/atomic"

	"seata.apache.org/seata-go/pkg/rm/tcc"
	"seata.apache.org/seata-go/pkg/rm/tcc/fence"
	"seata.apache.org/seata-go/pkg/tm"

	"verif/harness/memsql"
)

const (
	fenceDDL = "CREATE TABLE tcc_fence_log (xid varchar(128) NOT NULL, branch_id bigint NOT NULL, " +
		"action_name varchar(64) NOT NULL, status tinyint NOT NULL, gmt_create datetime(3) NOT NULL, " +
		"gmt_modified datetime(3) NOT NULL, PRIMARY KEY (xid, branch_id), KEY idx_gmt_modified (gmt_modified), " +
		"KEY idx_status (status))"
	effDDL = "CREATE TABLE effects (xid varchar(128) NOT NULL, branch_id bigint NOT NULL, phase varchar(16) NOT NULL, " +
		"n int NOT NULL, PRIMARY KEY (xid, branch_id, phase))"
	bizSQL = "INSERT INTO effects (xid, branch_id, phase, n) VALUES (?, ?, ?, 1) ON DUPLICATE KEY UPDATE n = n + 1"
)

// tccBook is what the user methods of all actions observed: which method ran for which branch.
type tccBook struct {
	mu  sync.Mutex
	inv map[int64][]string // branch id -> second-phase methods that ran ("commit" | "rollback"), in order
	try map[int64]int      // branch id -> number of times Prepare ran
}

func newTccBook() *tccBook { return &tccBook{inv: map[int64][]string{}, try: map[int64]int{}} }

func (b *tccBook) reset() {
	b.mu.Lock()
	b.inv, b.try = map[int64][]string{}, map[int64]int{}
	b.mu.Unlock()
}

// action is one TCC service (rm.TwoPhaseInterface).  A fenced action runs each of its three methods
// inside fence.WithFence over the fence database, the documented way: begin a transaction, WithFence
// with the business statement as callback, commit on nil, roll back on error.
type action struct {
	name   string
	fenced bool
	db     *sql.DB // fence database (memsql, no proxy); nil for plain actions
	book   *tccBook
	proxy  *tcc.TCCServiceProxy
}

func (a *action) GetActionName() string { return a.name }

func (a *action) withFence(ctx context.Context, xid string, bid int64, phase string) error {
	tx, err := a.db.BeginTx(ctx, nil)
	if err != nil {
		return err
	}
	werr := fence.WithFence(ctx, tx, func() error {
		_, e := tx.Exec(bizSQL, xid, bid, phase)
		return e
	})
	if werr == nil {
		return tx.Commit()
	}
	_ = tx.Rollback()
	return werr
}

func (a *action) Prepare(ctx context.Context, params interface{}) (bool, error) {
	bac := tm.GetBusinessActionContext(ctx)
	if bac == nil {
		return false, errors.New("no business action context in prepare")
	}
	a.book.mu.Lock()
	a.book.try[bac.BranchId]++
	a.book.mu.Unlock()
	if a.fenced {
		if err := a.withFence(ctx, bac.Xid, bac.BranchId, "prepare"); err != nil {
			return false, err
		}
	}
	return true, nil
}

func (a *action) second(ctx context.Context, bac *tm.BusinessActionContext, kind string) (bool, error) {
	if bac == nil {
		return false, errors.New("no business action context in phase two")
	}
	a.book.mu.Lock()
	a.book.inv[bac.BranchId] = append(a.book.inv[bac.BranchId], kind)
	a.book.mu.Unlock()
	if a.fenced {
		if err := a.withFence(ctx, bac.Xid, bac.BranchId, kind); err != nil {
			return false, err
		}
	}
	return true, nil
}

func (a *action) Commit(ctx context.Context, bac *tm.BusinessActionContext) (bool, error) {
	return a.second(ctx, bac, "commit")
}

func (a *action) Rollback(ctx context.Context, bac *tm.BusinessActionContext) (bool, error) {
	return a.second(ctx, bac, "rollback")
}

// tccLab holds the registered actions and the fence database.
type tccLab struct {
	srv  *memsql.Server
	db   *sql.DB
	book *tccBook

	mu     sync.Mutex                // writers of acts
	acts   atomic.Pointer[[]*action] // the registered actions the mix picks from
	fenced sync.Map                  // action name -> uses the fence
	late   int64
}

func openTCC(host string) *tccLab {
	l := &tccLab{book: newTccBook()}
	l.srv = memsql.NewServer(host)
	l.srv.MustExec(fenceDDL)
	l.srv.MustExec(effDDL)
	db, err := sql.Open("memsql", l.srv.DSNWithParams("fencedb", "parseTime=true&interpolateParams=true"))
	if err != nil {
		panic(err)
	}
	db.SetMaxIdleConns(8)
	l.db = db
	for i := 0; i < 2; i++ {
		l.register(fmt.Sprintf("stress-tcc-plain-%d", i), false)
		l.register(fmt.Sprintf("stress-tcc-fenced-%d", i), true)
	}
	return l
}

// register creates an action and its proxy through the real tcc.NewTCCServiceProxy (resource
// registration with the TCC resource manager and the coordinator).
func (l *tccLab) register(name string, fenced bool) *action {
	a := l.create(name, fenced)
	l.adopt(a)
	return a
}

// create takes no lock of the harness before it calls into the client (registerLate runs it on a
// goroutine of its own, next to the traffic)
func (l *tccLab) create(name string, fenced bool) *action {
	a := &action{name: name, fenced: fenced, book: l.book}
	if fenced {
		a.db = l.db
	}
	p, err := tcc.NewTCCServiceProxy(a)
	if p == nil {
		panic(fmt.Sprintf("NewTCCServiceProxy(%s): %v", name, err))
	}
	// err != nil with a proxy: the resource is registered with the resource manager, only its announcement
	// to the coordinator failed (the request died with its session) - a legal outcome under session churn;
	// the next session the client opens announces every cached resource again
	a.proxy = p
	return a
}

// adopt makes a registered action available to the transactions of the mix (copy on write: pick takes no lock)
func (l *tccLab) adopt(a *action) {
	l.mu.Lock()
	defer l.mu.Unlock()
	old := l.acts.Load()
	var next []*action
	if old != nil {
		next = append(next, (*old)...)
	}
	next = append(next, a)
	l.acts.Store(&next)
	l.fenced.Store(a.name, a.fenced)
}

// registerLate adds one more action while traffic runs (an application that creates a service lazily).
func (l *tccLab) registerLate(batch, n int) *action {
	return l.create(fmt.Sprintf("stress-tcc-late-%d-%d-%d", batch, n, atomic.AddInt64(&l.late, 1)), n%2 == 0)
}

func (l *tccLab) pick(i int) *tcc.TCCServiceProxy {
	as := *l.acts.Load()
	return as[i%len(as)].proxy
}

func (l *tccLab) isFenced(name string) bool {
	v, ok := l.fenced.Load(name)
	return ok && v.(bool)
}

// effects reads the business-effect counters of the fenced actions: (xid, branch id, phase) -> n.
func (l *tccLab) effects() map[string]int {
	out := map[string]int{}
	for _, row := range l.srv.Snapshot("effects")["effects"] {
		n, _ := row["n"].(int64)
		out[fmt.Sprintf("%v/%v/%v", row["xid"], row["branch_id"], row["phase"])] = int(n)
	}
	return out
}
