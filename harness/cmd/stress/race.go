package main

import (
	"os"
	"path/filepath"

	"verif/harness/common"
)

func raceReports() []string { return common.RaceReports(os.Getenv("VERIF_RACE_LOG")) }

// rawRaceLog returns the unparsed reports (debugging aid: VERIF_RACE_DUMP=<file> keeps a copy).
func dumpRaceLog() {
	dst := os.Getenv("VERIF_RACE_DUMP")
	base := os.Getenv("VERIF_RACE_LOG")
	if dst == "" || base == "" {
		return
	}
	files, _ := filepath.Glob(base + ".*")
	var all []byte
	for _, f := range files {
		b, err := os.ReadFile(f)
		if err == nil {
			all = append(all, b...)
		}
	}
	_ = os.WriteFile(dst, all, 0o644)
}
