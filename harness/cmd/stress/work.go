package main

import (
	"context"
	"database/sql"
	"errors"
	"fmt"
	"math/rand"
	"sort"
	"strings"
	"time"

	"seata.apache.org/seata-go/pkg/tm"

	"verif/harness/memsql"
)

// xaDB is one database behind the XA flavour of the proxy driver.
type xaDB struct {
	srv   *memsql.Server
	db    *sql.DB
	ver   string
	nkeys int
}

const xaDDL = "CREATE TABLE acct (id int NOT NULL, v int NOT NULL, PRIMARY KEY (id))"

func openXA(host, ver string, maxIdle int) *xaDB {
	x := &xaDB{ver: ver, nkeys: 32}
	x.srv = memsql.NewServer(host)
	x.srv.SetVersion(ver) // read by the proxy when the handle is opened
	x.srv.SetLockWaitTimeout(300 * time.Millisecond)
	x.srv.MustExec(xaDDL)
	for k := 1; k <= x.nkeys; k++ {
		x.srv.MustExec(fmt.Sprintf("INSERT INTO acct (id, v) VALUES (%d, 0)", k))
	}
	db, err := sql.Open("seata-xa-memsql", x.srv.DSN("xadb"))
	if err != nil {
		panic(err)
	}
	if maxIdle > 0 {
		db.SetMaxIdleConns(maxIdle)
	}
	x.db = db
	return x
}

var errBusiness = errors.New("business rollback")

// kinds of global transactions in the mix
var txKinds = []string{"at", "at", "xa", "xa", "tcc", "tcc", "mix", "mix"}

// atBranch: one AT branch on random rows (autocommit single row, autocommit two rows, explicit)
func (e *env) atBranch(ctx context.Context, r *rand.Rand) error {
	k := 1 + r.Intn(16)
	switch r.Intn(3) {
	case 0:
		_, err := e.lab.DB.ExecContext(ctx, "UPDATE t_int SET w1 = ? WHERE id = ?", 10+r.Intn(5), k)
		return err
	case 1:
		_, err := e.lab.DB.ExecContext(ctx, "UPDATE t_int SET w2 = ?, u1 = ? WHERE id IN (?, ?)", fmt.Sprintf("v%d", r.Intn(5)), 7+r.Intn(2), k, 1+r.Intn(16))
		return err
	}
	tx, err := e.lab.DB.BeginTx(ctx, nil)
	if err != nil {
		return err
	}
	if _, err = tx.ExecContext(ctx, "UPDATE t_int SET w1 = w1 + 1 WHERE id = ?", k); err != nil {
		_ = tx.Rollback()
		return err
	}
	return tx.Commit()
}

// xaBranch: one XA branch on row k of x (autocommit update, explicit update + read, autocommit read)
func (e *env) xaBranch(ctx context.Context, r *rand.Rand, x *xaDB, k int) error {
	switch r.Intn(4) {
	case 0, 1:
		_, err := x.db.ExecContext(ctx, "UPDATE acct SET v = v + 1 WHERE id = ?", k)
		return err
	case 2:
		tx, err := x.db.BeginTx(ctx, nil)
		if err != nil {
			return err
		}
		if _, err = tx.ExecContext(ctx, "UPDATE acct SET v = v + ? WHERE id = ?", 1+r.Intn(3), k); err != nil {
			_ = tx.Rollback()
			return err
		}
		var v int
		if err = tx.QueryRowContext(ctx, "SELECT v FROM acct WHERE id = ?", k).Scan(&v); err != nil {
			_ = tx.Rollback()
			return err
		}
		return tx.Commit()
	}
	rows, err := x.db.QueryContext(ctx, "SELECT v FROM acct WHERE id = ?", k)
	if err != nil {
		return err
	}
	for rows.Next() {
	}
	err = rows.Err()
	rows.Close()
	return err
}

// tccBranch: Prepare of one registered action (plain or fenced) inside the global transaction
func (e *env) tccBranch(ctx context.Context, r *rand.Rand) error {
	p := e.tcc.pick(r.Intn(1 << 20))
	_, err := p.Prepare(ctx, map[string]interface{}{"n": r.Intn(100)})
	return err
}

// oneTx runs one global transaction of the given kind and classifies how it ended:
// committed | rolledback (the business asked for it) | failed (a lock conflict, a lock wait, a request
// that died with its session ...: a definite, surfaced outcome) | panic.
func (e *env) oneTx(kind string, seed int64) (outcome string) {
	defer func() {
		if p := recover(); p != nil {
			outcome = "panic"
		}
	}()
	r := rand.New(rand.NewSource(seed))
	wantRollback := r.Intn(3) == 0
	var phase1 error
	err := tm.WithGlobalTx(context.Background(), &tm.GtxConfig{Name: "stress-" + kind, Timeout: 30 * time.Second}, func(ctx context.Context) error {
		var steps []func() error
		at := func() error { return e.atBranch(ctx, r) }
		tccStep := func() error { return e.tccBranch(ctx, r) }
		// XA branches take their rows in one global order (database, key): waits, but no deadlock cycles
		xaSteps := func(n int) []func() error {
			type tgt struct{ x, k int }
			seen := map[tgt]bool{}
			var ts []tgt
			for len(ts) < n {
				t := tgt{r.Intn(len(e.xa)), 1 + r.Intn(e.xa[0].nkeys)}
				if !seen[t] {
					seen[t] = true
					ts = append(ts, t)
				}
			}
			sort.Slice(ts, func(i, j int) bool { return ts[i].x < ts[j].x || (ts[i].x == ts[j].x && ts[i].k < ts[j].k) })
			var out []func() error
			for _, t := range ts {
				t := t
				out = append(out, func() error { return e.xaBranch(ctx, r, e.xa[t.x], t.k) })
			}
			return out
		}
		switch kind {
		case "at":
			for n := 1 + r.Intn(2); n > 0; n-- {
				steps = append(steps, at)
			}
		case "xa":
			steps = xaSteps(1 + r.Intn(2))
		case "tcc":
			for n := 1 + r.Intn(2); n > 0; n-- {
				steps = append(steps, tccStep)
			}
		default: // mix: one branch of every kind in one global transaction, in random order
			steps = append(xaSteps(1), at, tccStep)
			r.Shuffle(len(steps), func(i, j int) { steps[i], steps[j] = steps[j], steps[i] })
		}
		for _, s := range steps {
			if err := s(); err != nil {
				phase1 = err
				return err
			}
		}
		if wantRollback {
			return errBusiness
		}
		return nil
	})
	switch {
	case err == nil && phase1 == nil && !wantRollback:
		return "committed"
	case phase1 == nil && wantRollback && err != nil && strings.HasSuffix(err.Error(), "second phase error: <nil>") &&
		strings.Contains(err.Error(), errBusiness.Error()):
		return "rolledback"
	default:
		return "failed"
	}
}
