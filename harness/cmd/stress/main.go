// Driver for Concurrency.tla (C20): stress batches of concurrent global transactions - AT, XA and TCC
// branches mixed - through one initialised client and shared database handles, with the coordinator
// delivering phase two concurrently, sessions being lost and opened meanwhile, and a "hot spot" phase in
// which goroutines hammer the read-mostly shared components.  Built with -race: every distinct report of
// the Go race detector becomes a Race event.  After each batch the driver measures what was borrowed and
// not returned.
//
// The process supervises itself: the workload runs in a child (the race runtime reads GORACE at start-up);
// if the child dies of a run-time fatal error (for example "concurrent map writes") the parent records
// that as a Crash event of a one-trace batch instead of leaving the check without a verdict.
package main

import (
	"bytes"
	"database/sql"
	"fmt"
	"io"
	"math/rand"
	"os"
	"os/exec"
	"path/filepath"
	"regexp"
	"runtime"
	"strings"
	"sync"
	"time"

	sqlpkg "seata.apache.org/seata-go/pkg/datasource/sql"
	"seata.apache.org/seata-go/pkg/protocol/branch"
	sgetty "seata.apache.org/seata-go/pkg/remoting/getty"
	"seata.apache.org/seata-go/pkg/rm"

	"verif/harness/atlab"
	"verif/harness/common"
	"verif/harness/memsql"
	"verif/harness/tc"
	"verif/harness/trace"
)

// env is what one process of the driver shares.
var processStart = time.Now()

type env struct {
	o          *common.Opts
	lab        *atlab.Lab
	schema     *atlab.Schema
	xa         []*xaDB
	tcc        *tccLab
	co         *coordinator
	lbSessions *sync.Map
}

func main() {
	if os.Getenv("VERIF_RACE_LOG") == "" {
		supervise()
		return
	}
	o := common.Parse()
	e := setup(o)
	w, err := trace.NewWriter(o.Out)
	if err != nil {
		common.Fatal("%v", err)
	}
	workers, perWorker, churns, hotN, hotD := 8, 12, 3, 12, 400*time.Millisecond
	procs := []int{4, 16}
	if o.Thorough() {
		workers, perWorker, churns, hotN, hotD = 24, 60, 10, 24, 2500*time.Millisecond
		procs = []int{2, 4, 8, 16}
	}
	if v := os.Getenv("VERIF_STRESS_KINDS"); v != "" { // debugging aid: restrict the mix, e.g. "xa" or "at,tcc"
		txKinds = strings.Split(v, ",")
	}
	if v := os.Getenv("VERIF_STRESS_WORKERS"); v != "" {
		fmt.Sscanf(v, "%dx%d", &workers, &perWorker)
	}
	e.warmUp()
	n := 0
	seenRace := map[string]bool{}
	for bi, gp := range procs {
		if !o.Want(bi) {
			continue
		}
		runtime.GOMAXPROCS(gp)
		t := w.Begin(map[string]interface{}{"i": bi, "gomaxprocs": gp, "workers": workers, "per": perWorker},
			fmt.Sprintf("batch,gomaxprocs=%d,workers=%d", gp, workers))
		e.batch(t, bi, workers, perWorker, churns, hotN, hotD)
		t.Close()
		n++
		// every data-race report not seen before is a trace of its own: one signature per report
		for _, rs := range raceReports() {
			if seenRace[rs] {
				continue
			}
			seenRace[rs] = true
			rt := w.Begin(map[string]interface{}{"i": bi, "gomaxprocs": gp, "race": rs}, "race-report")
			rt.Add("Start", "sig", "start")
			rt.Add("Race", "where", rs, "sig", "race:"+rs)
			rt.Add("End", "sig", "end")
			rt.Close()
		}
	}
	dumpRaceLog()
	if err := w.Close(); err != nil {
		common.Fatal("%v", err)
	}
	fmt.Printf("DRIVER-OK traces=%d scenarios=%d\n", w.Count(), len(procs))
}

// ---------------------------------------------------------------------------------------------------
// supervision

var fatalRE = regexp.MustCompile(`(?m)^(fatal error: .*|panic: .*)$`)

func supervise() {
	dir, err := os.MkdirTemp("", "verif-race")
	if err != nil {
		common.Fatal("%v", err)
	}
	defer os.RemoveAll(dir)
	exe, err := os.Executable()
	if err != nil {
		common.Fatal("%v", err)
	}
	logBase := filepath.Join(dir, "race")
	cmd := exec.Command(exe, os.Args[1:]...)
	cmd.Env = append(os.Environ(), "VERIF_RACE_LOG="+logBase, "GORACE=log_path="+logBase+" halt_on_error=0 exitcode=0")
	var tail bytes.Buffer
	cmd.Stdout = os.Stdout
	cmd.Stderr = io.MultiWriter(os.Stderr, &tail)
	runErr := cmd.Run()
	if runErr == nil {
		return
	}
	m := fatalRE.FindString(tail.String())
	if m == "" {
		// not a crash of the code under test (bad flags, DRIVER-FATAL ...): pass the failure on
		os.RemoveAll(dir)
		if ee, ok := runErr.(*exec.ExitError); ok {
			os.Exit(ee.ExitCode())
		}
		os.Exit(3)
	}
	// the workload killed the process: one batch trace that says so (and carries the race reports so far)
	o := common.Parse()
	os.Setenv("VERIF_RACE_LOG", logBase)
	w, err := trace.NewWriter(o.Out)
	if err != nil {
		common.Fatal("%v", err)
	}
	what := m
	if i := strings.Index(what, " [recovered]"); i > 0 {
		what = what[:i]
	}
	if len(what) > 120 {
		what = what[:120]
	}
	t := w.Begin(map[string]interface{}{"i": 0, "crash": what}, "batch,crashed")
	t.Add("Start", "sig", "start")
	t.Add("Crash", "what", what, "sig", "crash:"+what)
	t.Add("End", "sig", "end")
	t.Close()
	for _, rs := range raceReports() {
		rt := w.Begin(map[string]interface{}{"i": 0, "race": rs}, "race-report")
		rt.Add("Start", "sig", "start")
		rt.Add("Race", "where", rs, "sig", "race:"+rs)
		rt.Add("End", "sig", "end")
		rt.Close()
	}
	if err := w.Close(); err != nil {
		common.Fatal("%v", err)
	}
	fmt.Printf("DRIVER-OK traces=%d scenarios=1 crashed=1\n", w.Count())
}

// ---------------------------------------------------------------------------------------------------
// set-up

func setup(o *common.Opts) *env {
	cfg := tc.DefaultConfig()
	cfg.LoadBalance = "RandomLoadBalance"
	cfg.ClientExtra = atlab.XAClientYaml // the hold-time checker never force-closes: schedule independent
	// the asynchronous commit worker flushes often and in small batches (documented keys under seata.async), so
	// that phase-two commits keep arriving while earlier batches are still being worked on
	cfg.Extra = "  async:\n    buffer_limit: 4\n    buffer_clean_interval: 15ms\n"
	e := &env{o: o}
	e.lab = atlab.Open(cfg, "stressdb")
	e.lab.NKeys = 16
	e.schema = atlab.ByName("t_int")
	e.lab.Reset(e.schema)
	for k := 1; k <= 16; k++ {
		e.lab.Srv.MustExec(fmt.Sprintf("INSERT INTO t_int (id, w1, w2, u1) VALUES (%d, 10, 'v0', 7)", k))
	}
	e.lab.Srv.SetLockWaitTimeout(2 * time.Second)
	e.co = newCoordinator(e.lab.Coord, e.lab.Sess)
	// two XA databases: a server that detaches prepared branches (>= 8.0.29) with a tuned pool, and an
	// older one behind a handle with database/sql's default pool (2 idle connections)
	e.xa = []*xaDB{openXA("stressxa30", "8.0.30", 8), openXA("stressxa28", "8.0.28", 0)}
	for _, x := range e.xa {
		// the coordinator's early time-outs are tied to what the databases see: XA START of a branch
		x.srv.SetObserver(func(en memsql.Entry) {
			if en.Class == "xa_start" && en.Err == "" {
				if i := strings.LastIndex(en.XAID, "-"); i > 0 {
					e.co.earlyTimeout(strings.TrimSuffix(en.XAID[:i], ",")) // "<xid>,-<branch id>" (gtrid, bqual)
				}
			}
		})
	}
	// The table-meta cache is one per database *type* and every sql.Open replaces it by one that reads
	// from the handle just opened: the AT handle has to be the last one opened, or AT statements look for
	// their tables on the XA servers.
	old := e.lab.DB
	db, err := sql.Open("seata-at-memsql", e.lab.DSN())
	if err != nil {
		common.Fatal("re-open AT handle: %v", err)
	}
	e.lab.DB = db
	old.Close()
	e.lab.DB.SetMaxIdleConns(8)
	e.tcc = openTCC("stressfence")
	e.co.open(e.co.prepare(1)[0]) // a client with two connections to the coordinator
	e.lbSessions = lbTable(e.lab.Coord.Addr)
	return e
}

// warmUp: pools, metadata cache and lazily started goroutines reach their steady state
func (e *env) warmUp() {
	var wg sync.WaitGroup
	for wk := 0; wk < 8; wk++ {
		wg.Add(1)
		go func(wk int) {
			defer wg.Done()
			for n := 0; n < 4; n++ {
				e.oneTx(txKinds[(wk+n)%len(txKinds)], int64(wk*100+n))
			}
		}(wk)
	}
	wg.Wait()
	e.co.sweep()
	e.co.p2.Wait()
	time.Sleep(500 * time.Millisecond)
}

// ---------------------------------------------------------------------------------------------------
// accounting

type measure struct {
	inuse, intx, xaconns, xaprepared, xaheld, fencetx, futures, goroutines, undo, undoMarkers int
	unowned, xaUnowned                                                                        int // physical connections no pool owns (AT + fence servers / XA servers)
}

// pools lists every database/sql pool of the process: the handles the application holds and the inner
// pools of the AT / XA resources (undo log, metadata, phase two).
func (e *env) pools() []*sql.DB {
	ps := []*sql.DB{e.lab.DB, e.lab.Bare, e.tcc.db}
	for _, x := range e.xa {
		ps = append(ps, x.db)
	}
	for _, bt := range []branch.BranchType{branch.BranchTypeAT, branch.BranchTypeXA} {
		rm.GetRmCacheInstance().GetResourceManager(bt).GetCachedResources().Range(func(_, v interface{}) bool {
			if res, ok := v.(*sqlpkg.DBResource); ok && res.GetDB() != nil {
				ps = append(ps, res.GetDB())
			}
			return true
		})
	}
	return ps
}

func (e *env) servers() []*memsql.Server {
	ss := []*memsql.Server{e.lab.Srv, e.tcc.srv}
	for _, x := range e.xa {
		ss = append(ss, x.srv)
	}
	return ss
}

func (e *env) isXA(s *memsql.Server) bool {
	for _, x := range e.xa {
		if x.srv == s {
			return true
		}
	}
	return false
}

func (e *env) measure() measure {
	var m measure
	xaPools := map[*sql.DB]bool{}
	for _, x := range e.xa {
		xaPools[x.db] = true
	}
	rm.GetRmCacheInstance().GetResourceManager(branch.BranchTypeXA).GetCachedResources().Range(func(_, v interface{}) bool {
		if res, ok := v.(*sqlpkg.DBResource); ok && res.GetDB() != nil {
			xaPools[res.GetDB()] = true
		}
		return true
	})
	for _, p := range e.pools() {
		st := p.Stats()
		m.inuse += st.InUse
		if xaPools[p] {
			m.xaUnowned -= st.OpenConnections
		} else {
			m.unowned -= st.OpenConnections
		}
	}
	for _, s := range e.servers() {
		if e.isXA(s) {
			m.xaUnowned += s.OpenConns()
		} else {
			m.unowned += s.OpenConns()
		}
		for _, c := range s.ConnStates() {
			if c.Closed {
				continue
			}
			switch {
			case c.XA != "":
				m.xaconns++
			case (c.InTx || c.Locks > 0) && s == e.tcc.srv:
				m.fencetx++
			case c.InTx || c.Locks > 0:
				m.intx++
			}
		}
		m.xaprepared += len(s.PreparedXA())
	}
	rm.GetRmCacheInstance().GetResourceManager(branch.BranchTypeXA).GetCachedResources().Range(func(_, v interface{}) bool {
		if res, ok := v.(*sqlpkg.DBResource); ok {
			res.GetKeeper().Range(func(k, _ interface{}) bool {
				m.xaheld++
				if debug {
					fmt.Fprintf(os.Stderr, "xa held: %v\n", k)
				}
				return true
			})
		}
		return true
	})
	f, mer := sgetty.VerifPendingFutures()
	m.futures = f + mer
	m.goroutines = runtime.NumGoroutine()
	// undo rows: normal ones (log_status 0) belong to unfinished branches; a marker (log_status 1) is what a
	// rollback leaves on purpose when it finds no undo log (it makes a late phase one fail) - it is removed
	// by the coordinator's periodic clean-up only
	for _, r := range e.lab.Srv.Snapshot("undo_log")["undo_log"] {
		if fmt.Sprint(r["log_status"]) == "1" {
			m.undoMarkers++
		} else {
			m.undo++
		}
	}
	return m
}

// ---------------------------------------------------------------------------------------------------
// one batch

// lateRegs: TCC services created lazily per batch while the mix runs (each on a goroutine of its own)
const lateRegs = 6

func (e *env) batch(t *trace.T, bi, workers, perWorker, churns, hotN int, hotD time.Duration) {
	o := e.o
	// settle, then take the baseline
	time.Sleep(300 * time.Millisecond)
	e.co.resetBatch()
	e.tcc.book.reset()
	e.tcc.srv.MustExec("DELETE FROM effects")
	e.tcc.srv.MustExec("DELETE FROM tcc_fence_log")
	e.lab.Coord.ClearLog() // the stand-ins' logs are not used here and grow without bound otherwise
	for _, s := range e.servers() {
		s.ClearJournal()
	}
	runtime.GC()
	base := e.measure()
	t.Add("Start", "live", len(e.co.sessions), "sig", "start")
	// Every goroutine of the workload records its events in a log of its own; the logs are merged into the
	// trace when the goroutine has been joined (a shared lock at every TxStart/TxEnd would order the
	// goroutines, and with them the client's memory accesses, for the race detector).
	type evlog struct {
		evs  [][]interface{}
		hung int
	}
	merge := func(l *evlog) int {
		for _, ev := range l.evs {
			t.Add(ev[0].(string), ev[1:]...)
		}
		return l.hung
	}
	hung := 0
	run := func(l *evlog, id int, kind string, seed int64) {
		l.evs = append(l.evs, []interface{}{"TxStart", "id", id, "kind", kind, "sig", "tx:" + kind})
		done := make(chan string, 1)
		go func() { done <- e.oneTx(kind, seed) }()
		var outcome string
		select {
		case outcome = <-done:
		case <-time.After(60 * time.Second):
			outcome = "hung"
			l.hung++
		}
		l.evs = append(l.evs, []interface{}{"TxEnd", "id", id, "kind", kind, "outcome", outcome, "sig", "tx:" + kind + ":" + outcome})
	}

	// phase A: the transaction mix, with session churn and a lazily registered TCC action meanwhile
	var wg sync.WaitGroup
	logs := make([]*evlog, workers+2)
	for wk := 0; wk < workers; wk++ {
		wg.Add(1)
		logs[wk] = &evlog{}
		go func(wk int) {
			defer wg.Done()
			r := rand.New(rand.NewSource(o.Seed*7919 + int64(bi*1000+wk)))
			for n := 0; n < perWorker; n++ {
				run(logs[wk], wk*1000+n, txKinds[r.Intn(len(txKinds))], r.Int63())
				if r.Intn(6) == 0 {
					runtime.Gosched()
				}
			}
		}(wk)
	}
	pre := e.co.prepare(churns)
	churnLog := &evlog{}
	logs[workers] = churnLog
	wg.Add(1)
	go func() {
		defer wg.Done()
		r := rand.New(rand.NewSource(o.Seed*104729 + int64(bi)))
		for n := 0; n < churns; n++ {
			time.Sleep(time.Duration(40+r.Intn(80)) * time.Millisecond)
			if live, ok := e.co.lose(); ok {
				churnLog.evs = append(churnLog.evs, []interface{}{"Session", "op", "lose", "live", live, "sig", "session:lose"})
			}
			time.Sleep(time.Duration(5+r.Intn(30)) * time.Millisecond)
			live := e.co.open(pre[n])
			churnLog.evs = append(churnLog.evs, []interface{}{"Session", "op", "open", "live", live, "sig", "session:open"})
		}
	}()
	// an application that creates a TCC service on first use: the registration runs on a goroutine that
	// has touched nothing else before, next to the phase-two look-ups of the running transactions
	late := make([]*action, lateRegs)
	for n := 0; n < lateRegs; n++ {
		wg.Add(1)
		go func(n int) {
			defer wg.Done()
			time.Sleep(time.Duration(30+45*n) * time.Millisecond)
			late[n] = e.tcc.registerLate(bi, n)
		}(n)
	}
	wg.Wait()
	for _, l := range logs {
		if l != nil {
			hung += merge(l)
		}
	}
	for _, a := range late {
		e.tcc.adopt(a)
	}

	// phase B: the hot spot - tight loops over the shared read-mostly components, a few transactions meanwhile
	var hw sync.WaitGroup
	hotEnd := time.Now().Add(hotD)
	hlogs := make([]*evlog, 3)
	for k := 0; k < 3; k++ {
		hw.Add(1)
		hlogs[k] = &evlog{}
		go func(k int) {
			defer hw.Done()
			r := rand.New(rand.NewSource(o.Seed*15485863 + int64(bi*10+k)))
			for n := 0; time.Now().Before(hotEnd); n++ {
				run(hlogs[k], 900000+k*1000+n, txKinds[r.Intn(len(txKinds))], r.Int63())
			}
		}(k)
	}
	hr := e.hotPhase(bi, hotN, hotD)
	hw.Wait()
	for _, l := range hlogs {
		hung += merge(l)
	}
	if hr.firstErr != "" && os.Getenv("VERIF_STRESS_DEBUG") != "" {
		fmt.Fprintf(os.Stderr, "hot phase: %d errors, first: %s\n", hr.errs, hr.firstErr)
	}
	t.Add("Hot", "workers", hr.workers, "iters", hr.iters, "errs", hr.errs, "panics", hr.panics, "hung", hr.hung,
		"sig", fmt.Sprintf("hot:hung=%v:panics=%v", hr.hung > 0, hr.panics > 0))

	if e.o.Thorough() {
		// the client's table-metadata cache refreshes itself on a one-minute ticker (from the moment the handle was
		// opened): the thorough tier lets the process live through one tick, so that what the refresh takes from
		// the pools is part of what must be back at quiescence
		if d := time.Until(processStart.Add(63 * time.Second)); d > 0 {
			time.Sleep(d)
		}
	}
	// the coordinator times out what is still undecided, then everything comes to rest
	e.co.sweep()
	e.co.p2.Wait()
	// quiescence: the async commit worker flushes on a timer; give everything time to come to rest - until
	// all measures are back, or nothing has moved for 2.5 s, or 8 s have passed
	deadline := time.Now().Add(8 * time.Second)
	var m, last measure
	lastMove := time.Now()
	var connleak, xaconnleak, gdelta int
	for {
		runtime.GC()
		m = e.measure()
		connleak = m.unowned - base.unowned
		xaconnleak = m.xaUnowned - base.xaUnowned
		gdelta = m.goroutines - base.goroutines
		rest := m.inuse == 0 && connleak <= 0 && xaconnleak <= 0 && m.intx == 0 && m.fencetx == 0 && m.xaconns == 0 && m.xaprepared == 0 &&
			m.xaheld == 0 && m.futures == 0 && gdelta <= 0 && m.undo == 0
		if m != last {
			last, lastMove = m, time.Now()
		}
		if rest || time.Now().After(deadline) || time.Since(lastMove) > 2500*time.Millisecond {
			break
		}
		time.Sleep(100 * time.Millisecond)
	}
	if connleak < 0 {
		connleak = 0
	}
	if xaconnleak < 0 {
		xaconnleak = 0
	}
	if gdelta < 0 {
		gdelta = 0
	}
	if m.undo > 0 && debug {
		for _, r := range e.lab.Srv.Snapshot("undo_log")["undo_log"] {
			fmt.Fprintf(os.Stderr, "undo row left: xid=%v branch=%v status=%v created=%v\n", r["xid"], r["branch_id"], r["log_status"], r["log_created"])
		}
	}
	tccBranches, tccNoP2, tccExtra := e.co.tccVerdict(e.tcc.book)
	fenced, fenceDup := e.co.fenceVerdict(e.tcc)
	e.co.mu.Lock()
	p2failed, swept := e.co.p2failed, e.co.swept
	e.co.mu.Unlock()
	b := func(v int) string {
		if v > 0 {
			return "true"
		}
		return "false"
	}
	t.Add("Quiesce", "hung", hung, "inuse", m.inuse, "connleak", connleak, "intx", m.intx, "futures", m.futures,
		"goroutines", gdelta, "undoleft", m.undo, "undomarkers", m.undoMarkers-base.undoMarkers,
		"xaheld", m.xaheld, "xaprepared", m.xaprepared, "xaconns", m.xaconns, "xaconnleak", xaconnleak,
		"tccbranches", tccBranches, "tccnop2", tccNoP2, "tccextra", tccExtra, "fenced", fenced, "fencedup", fenceDup, "fencetx", m.fencetx,
		"p2failed", p2failed, "swept", swept,
		"sig", "quiesce:hung="+b(hung)+":inuse="+b(m.inuse)+":connleak="+b(connleak)+":intx="+b(m.intx)+":futures="+b(m.futures)+
			":goroutines="+b(gdelta)+":undo="+b(m.undo)+":xaheld="+b(m.xaheld)+":xaprepared="+b(m.xaprepared)+":xaconns="+b(m.xaconns)+":xaconnleak="+b(xaconnleak)+
			":tccnop2="+b(tccNoP2)+":tccextra="+b(tccExtra)+":fencedup="+b(fenceDup)+":fencetx="+b(m.fencetx))
	t.Add("End", "sig", "end")
}
