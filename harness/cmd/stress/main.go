// Driver for Concurrency.tla (C20): a stress batch of concurrent global transactions through one
// initialised client and shared database handles, with the coordinator delivering phase two
// concurrently. Built with -race: every distinct report of the Go race detector becomes a Race event.
// After the batch the driver measures what was borrowed and not returned.
package main

import (
	"bufio"
	"context"
	"errors"
	"fmt"
	"math/rand"
	"os"
	"path/filepath"
	"regexp"
	"runtime"
	"sort"
	"strings"
	"sync"
	"syscall"
	"time"

	"seata.apache.org/seata-go/pkg/protocol/branch"
	"seata.apache.org/seata-go/pkg/protocol/message"
	sgetty "seata.apache.org/seata-go/pkg/remoting/getty"
	"seata.apache.org/seata-go/pkg/tm"

	"verif/harness/atlab"
	"verif/harness/common"
	"verif/harness/tc"
	"verif/harness/trace"
)

type reg struct {
	bid int64
	rid string
}

func main() {
	// the race runtime reads GORACE at start-up: re-exec once with a private log path
	if os.Getenv("VERIF_RACE_LOG") == "" {
		dir, err := os.MkdirTemp("", "verif-race")
		if err == nil {
			os.Setenv("VERIF_RACE_LOG", filepath.Join(dir, "race"))
			os.Setenv("GORACE", "log_path="+filepath.Join(dir, "race")+" halt_on_error=0 exitcode=0")
			if exe, err := os.Executable(); err == nil {
				_ = syscall.Exec(exe, os.Args, os.Environ())
			}
		}
	}
	defer os.RemoveAll(filepath.Dir(os.Getenv("VERIF_RACE_LOG")))
	o := common.Parse()
	cfg := tc.DefaultConfig()
	cfg.LoadBalance = "RandomLoadBalance"
	lab := atlab.Open(cfg, "stressdb")
	lab.NKeys = 16
	schema := atlab.ByName("t_int")
	lab.Reset(schema)
	for k := 1; k <= 16; k++ {
		lab.Srv.MustExec(fmt.Sprintf("INSERT INTO t_int (id, w1, w2, u1) VALUES (%d, 10, 'v0', 7)", k))
	}
	lab.Srv.SetLockWaitTimeout(2 * time.Second)
	lab.DB.SetMaxIdleConns(8)
	// a second session opened concurrently with traffic, as a reconnecting client would have
	w, err := trace.NewWriter(o.Out)
	if err != nil {
		common.Fatal("%v", err)
	}
	workers, perWorker := 8, 12
	if o.Thorough() {
		workers, perWorker = 24, 40
	}
	procs := []int{4, 16}
	if o.Thorough() {
		procs = []int{2, 4, 8, 16}
	}

	// the coordinator: phase two is delivered asynchronously after the global decision, the way the TC does
	var mu sync.Mutex
	regs := map[string][]reg{} // xid -> registered branches
	var p2 sync.WaitGroup
	lab.Coord.Script = func(kind string, m tc.Msg) (tc.Reply, bool) {
		switch req := m.Rpc.Body.(type) {
		case message.BranchRegisterRequest:
			rep := lab.Coord.Model(kind, m)
			if resp, ok := rep.Body.(message.BranchRegisterResponse); ok && resp.ResultCode == message.ResultCodeSuccess {
				mu.Lock()
				regs[req.Xid] = append(regs[req.Xid], reg{resp.BranchId, req.ResourceId})
				mu.Unlock()
			}
			return rep, true
		case message.GlobalCommitRequest:
			mu.Lock()
			bs := regs[req.Xid]
			delete(regs, req.Xid)
			mu.Unlock()
			p2.Add(1)
			go func() {
				defer p2.Done()
				for _, b := range bs {
					lab.Coord.BranchCommit(lab.Sess, req.Xid, b.bid, branch.BranchTypeAT, b.rid, nil, 10*time.Second)
				}
			}()
			return tc.Reply{}, false
		case message.GlobalRollbackRequest:
			mu.Lock()
			bs := regs[req.Xid]
			delete(regs, req.Xid)
			mu.Unlock()
			rep := lab.Coord.Model(kind, m)
			p2.Add(1)
			go func() {
				defer p2.Done()
				for i := len(bs) - 1; i >= 0; i-- {
					for try := 0; try < 5; try++ {
						st, ok := lab.Coord.BranchRollback(lab.Sess, req.Xid, bs[i].bid, branch.BranchTypeAT, bs[i].rid, nil, 10*time.Second)
						if ok && st == branch.BranchStatusPhasetwoRollbacked {
							break
						}
						time.Sleep(20 * time.Millisecond)
					}
				}
				lab.Coord.ReleaseLocks(req.Xid)
			}()
			return rep, true
		}
		return tc.Reply{}, false
	}

	// warm-up: pools, metadata cache and lazily started goroutines reach their steady state
	{
		var wg sync.WaitGroup
		for wk := 0; wk < 8; wk++ {
			wg.Add(1)
			go func(wk int) {
				defer wg.Done()
				for n := 0; n < 4; n++ {
					oneTx(lab, schema, int64(wk*100+n))
				}
			}(wk)
		}
		wg.Wait()
		p2.Wait()
		time.Sleep(500 * time.Millisecond)
	}
	for bi, gp := range procs {
		runtime.GOMAXPROCS(gp)
		t := w.Begin(map[string]interface{}{"i": bi, "gomaxprocs": gp, "workers": workers, "per": perWorker},
			fmt.Sprintf("batch,gomaxprocs=%d,workers=%d", gp, workers))
		t.Add("Start", "sig", "start")
		// settle, then take the baseline
		time.Sleep(300 * time.Millisecond)
		runtime.GC()
		g0 := runtime.NumGoroutine()
		open0 := lab.Srv.OpenConns()
		var wg sync.WaitGroup
		var tmu sync.Mutex
		hung := 0
		for wk := 0; wk < workers; wk++ {
			wg.Add(1)
			go func(wk int) {
				defer wg.Done()
				r := rand.New(rand.NewSource(o.Seed*7919 + int64(bi*1000+wk)))
				for n := 0; n < perWorker; n++ {
					id := wk*1000 + n
					tmu.Lock()
					t.Add("TxStart", "id", id, "sig", "tx")
					tmu.Unlock()
					done := make(chan string, 1)
					go func() { done <- oneTx(lab, schema, r.Int63()) }()
					var outcome string
					select {
					case outcome = <-done:
					case <-time.After(60 * time.Second):
						outcome = "hung"
						tmu.Lock()
						hung++
						tmu.Unlock()
					}
					tmu.Lock()
					t.Add("TxEnd", "id", id, "outcome", outcome, "sig", "tx:"+outcome)
					tmu.Unlock()
					if r.Intn(6) == 0 {
						runtime.Gosched()
					}
				}
			}(wk)
		}
		// metadata refresh and a fresh handle being opened while traffic runs
		wg.Wait()
		p2.Wait()
		// quiescence: the async commit worker flushes on a timer; give everything time to come to rest
		deadline := time.Now().Add(8 * time.Second)
		var inuse, intx, fut, mer, gdelta int
		for {
			inuse = lab.DB.Stats().InUse
			intx = 0
			for _, c := range lab.Srv.ConnStates() {
				if !c.Closed && (c.InTx || c.Locks > 0) {
					intx++
				}
			}
			fut, mer = sgetty.VerifPendingFutures()
			runtime.GC()
			gdelta = runtime.NumGoroutine() - g0
			if (inuse == 0 && intx == 0 && fut == 0 && gdelta <= 0) || time.Now().After(deadline) {
				break
			}
			time.Sleep(100 * time.Millisecond)
		}
		// physical connections: whatever is open beyond the pool's idle allowance is lost
		connleak := lab.Srv.OpenConns() - open0 - 8
		if connleak < 0 {
			connleak = 0
		}
		if gdelta < 0 {
			gdelta = 0
		}
		t.Add("Quiesce", "hung", hung, "inuse", inuse, "connleak", connleak, "intx", intx, "futures", fut+mer,
			"goroutines", gdelta, "undoleft", lab.UndoRows(),
			"sig", fmt.Sprintf("quiesce:hung=%v:inuse=%v:connleak=%v:intx=%v:futures=%v:goroutines=%v", hung > 0, inuse > 0, connleak > 0, intx > 0, fut+mer > 0, gdelta > 0))
		for _, rs := range raceReports() {
			t.Add("Race", "where", rs, "sig", "race:"+rs)
		}
		t.Add("End", "sig", "end")
		t.Close()
	}
	if err := w.Close(); err != nil {
		common.Fatal("%v", err)
	}
	fmt.Printf("DRIVER-OK traces=%d scenarios=%d\n", w.Count(), len(procs))
}

// one global transaction: 1-2 AT branches on random rows, committed or rolled back
func oneTx(lab *atlab.Lab, schema *atlab.Schema, seed int64) (outcome string) {
	defer func() {
		if p := recover(); p != nil {
			outcome = "panic"
		}
	}()
	r := rand.New(rand.NewSource(seed))
	wantRollback := r.Intn(3) == 0
	var phase1 error
	err := tm.WithGlobalTx(context.Background(), &tm.GtxConfig{Name: "stress", Timeout: 30 * time.Second}, func(ctx context.Context) error {
		n := 1 + r.Intn(2)
		for b := 0; b < n; b++ {
			k := 1 + r.Intn(16)
			var err error
			switch r.Intn(3) {
			case 0:
				_, err = lab.DB.ExecContext(ctx, "UPDATE t_int SET w1 = ? WHERE id = ?", 10+r.Intn(5), k)
			case 1:
				_, err = lab.DB.ExecContext(ctx, "UPDATE t_int SET w2 = ?, u1 = ? WHERE id IN (?, ?)", fmt.Sprintf("v%d", r.Intn(5)), 7+r.Intn(2), k, 1+r.Intn(16))
			default:
				tx, e := lab.DB.BeginTx(ctx, nil)
				if e != nil {
					err = e
					break
				}
				if _, e = tx.ExecContext(ctx, "UPDATE t_int SET w1 = w1 + 1 WHERE id = ?", k); e != nil {
					_ = tx.Rollback()
					err = e
					break
				}
				err = tx.Commit()
			}
			if err != nil {
				phase1 = err
				return err
			}
		}
		if wantRollback {
			return errors.New("business rollback")
		}
		return nil
	})
	switch {
	case phase1 != nil:
		return "failed" // lock conflict or lock wait: a definite, surfaced outcome
	case err != nil:
		return "rolledback"
	default:
		return "committed"
	}
}

// frames of the repository's code: /repo, or the scratch tree named by VERIF_REPO (tools/try_mutant_alt.sh)
var frameRE = regexp.MustCompile(`^\s+(` + regexp.QuoteMeta(repoDir()) + `/[^\s:]+):(\d+)`)

func repoDir() string {
	if d := os.Getenv("VERIF_REPO"); d != "" {
		return strings.TrimRight(d, "/")
	}
	return "/repo"
}

var funcRE = regexp.MustCompile(`^\s+seata\.apache\.org/seata-go/(\S+?)\(`)

// raceReports parses the race detector's log (GORACE=log_path=...) into distinct signatures:
// the innermost /repo frames of the two conflicting accesses.
func raceReports() []string {
	base := os.Getenv("VERIF_RACE_LOG")
	if base == "" {
		return nil
	}
	files, _ := filepath.Glob(base + ".*")
	seen := map[string]bool{}
	for _, f := range files {
		fh, err := os.Open(f)
		if err != nil {
			continue
		}
		sc := bufio.NewScanner(fh)
		sc.Buffer(make([]byte, 1<<20), 1<<24)
		var cur []string
		inStack, got := false, false
		lastFunc := ""
		flush := func() {
			if len(cur) > 0 {
				sort.Strings(cur)
				seen[strings.Join(cur, "|")] = true
			}
			cur = nil
		}
		for sc.Scan() {
			ln := sc.Text()
			switch {
			case strings.HasPrefix(ln, "WARNING: DATA RACE"):
				flush()
			case strings.HasPrefix(ln, "Read at") || strings.HasPrefix(ln, "Write at") || strings.HasPrefix(ln, "Previous write at") || strings.HasPrefix(ln, "Previous read at"):
				inStack, got = true, false
			case strings.HasPrefix(ln, "Goroutine ") || ln == "":
				inStack = false
			default:
				if m := funcRE.FindStringSubmatch(ln); m != nil {
					lastFunc = m[1]
				}
				if inStack && !got {
					if m := frameRE.FindStringSubmatch(ln); m != nil {
						cur = append(cur, lastFunc)
						got = true
					}
				}
			}
		}
		flush()
		fh.Close()
	}
	out := make([]string, 0, len(seen))
	for k := range seen {
		out = append(out, k)
	}
	sort.Strings(out)
	return out
}
