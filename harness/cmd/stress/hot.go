package main

import (
	"context"
	"database/sql"
	"fmt"
	"os"
	"sync"
	"time"

	sqlpkg "seata.apache.org/seata-go/pkg/datasource/sql"
	"seata.apache.org/seata-go/pkg/datasource/sql/datasource"
	"seata.apache.org/seata-go/pkg/datasource/sql/exec"
	"seata.apache.org/seata-go/pkg/datasource/sql/parser"
	"seata.apache.org/seata-go/pkg/datasource/sql/types"
	"seata.apache.org/seata-go/pkg/datasource/sql/undo"
	"seata.apache.org/seata-go/pkg/datasource/sql/undo/factor"
	undoparser "seata.apache.org/seata-go/pkg/datasource/sql/undo/parser"
	"seata.apache.org/seata-go/pkg/protocol/branch"
	"seata.apache.org/seata-go/pkg/protocol/message"
	sgetty "seata.apache.org/seata-go/pkg/remoting/getty"
	"seata.apache.org/seata-go/pkg/remoting/loadbalance"
	"seata.apache.org/seata-go/pkg/rm"
	"seata.apache.org/seata-go/pkg/rm/tcc"
	"seata.apache.org/seata-go/pkg/tm"

	"verif/harness/tc"
)

// hotLoops are the read-mostly shared components an application's goroutines hit all the time.  Every
// loop body is one iteration; it returns an error for a result that is plainly wrong (counted, not judged
// here: the race detector and the hang detection are what this phase is for).
var hotLoops = []struct {
	name string
	body func(e *env, g, i int) error
}{
	{"tablemeta", func(e *env, g, i int) error {
		m, err := datasource.GetTableCache(types.DBTypeMySQL).GetTableMeta(context.Background(), "testdb", "t_int")
		if err != nil {
			return err
		}
		if m == nil || len(m.Columns) == 0 {
			return fmt.Errorf("empty table meta")
		}
		return nil
	}},
	{"undo", func(e *env, g, i int) error {
		if _, err := undo.GetUndoLogManager(types.DBTypeMySQL); err != nil {
			return err
		}
		h, err := factor.GetUndoExecutorHolder(types.DBTypeMySQL)
		if err != nil {
			return err
		}
		_ = h.GetUpdateExecutor(undo.SQLUndoLog{})
		_ = h.GetInsertExecutor(undo.SQLUndoLog{})
		_ = h.GetDeleteExecutor(undo.SQLUndoLog{})
		if undo.GetUndologBuilder(types.UpdateExecutor) == nil {
			return fmt.Errorf("no undo log builder for UPDATE")
		}
		if _, err := undoparser.GetCache().GetDefault(); err != nil {
			return err
		}
		if types.GetMysqlKeyWord()["SELECT"] == "" {
			return fmt.Errorf("keyword table incomplete")
		}
		return nil
	}},
	{"rmcache", func(e *env, g, i int) error {
		n := 0
		for _, bt := range []branch.BranchType{branch.BranchTypeAT, branch.BranchTypeXA, branch.BranchTypeTCC} {
			m := rm.GetRmCacheInstance().GetResourceManager(bt)
			if m.GetBranchType() != bt {
				return fmt.Errorf("resource manager of type %v answers %v", bt, m.GetBranchType())
			}
			m.GetCachedResources().Range(func(k, v interface{}) bool {
				if res, ok := v.(rm.Resource); ok {
					_ = res.GetResourceId()
					_ = res.GetBranchType()
					n++
				}
				if db, ok := v.(*sqlpkg.DBResource); ok {
					_ = db.GetDbVersion()
					_ = db.IsShouldBeHeld()
					_ = db.GetDbType()
					db.GetKeeper().Range(func(_, _ interface{}) bool { return true })
				}
				return true
			})
		}
		if tcc.GetTCCResourceManagerInstance().GetBranchType() != branch.BranchTypeTCC {
			return fmt.Errorf("tcc resource manager singleton")
		}
		_ = rm.GetRMRemotingInstance()
		_ = datasource.GetDataSourceManager(branch.BranchTypeAT)
		if n < 4 {
			return fmt.Errorf("only %d cached resources", n)
		}
		return nil
	}},
	{"tmctx", func(e *env, g, i int) error {
		// propagation helpers on a context of this goroutine's own
		ctx := tm.InitSeataContext(context.Background())
		xid := fmt.Sprintf("10.0.0.1:8091:%d", 9_000_000+g*100_000+i)
		tm.SetXID(ctx, xid)
		tm.SetTxName(ctx, "hot")
		tm.SetTxRole(ctx, tm.Participant)
		tm.SetTxStatus(ctx, message.GlobalStatusBegin)
		if !tm.IsGlobalTx(ctx) || tm.GetXID(ctx) != xid || tm.GetTxName(ctx) != "hot" {
			return fmt.Errorf("context helpers lost the xid")
		}
		seen := ""
		for _, pg := range []tm.Propagation{tm.Required, tm.Supports, tm.Mandatory} { // joins: no request to the coordinator
			if err := tm.WithGlobalTx(ctx, &tm.GtxConfig{Name: "hot-nested", Propagation: pg}, func(c context.Context) error {
				seen = tm.GetXID(c)
				return nil
			}); err != nil {
				return err
			}
			if seen != xid {
				return fmt.Errorf("propagation %v ran under xid %q", pg, seen)
			}
		}
		bare := context.Background()
		for _, pg := range []tm.Propagation{tm.Supports, tm.NotSupported, tm.Never} { // no transaction: none started
			if err := tm.WithGlobalTx(bare, &tm.GtxConfig{Name: "hot-none", Propagation: pg}, func(c context.Context) error { return nil }); err != nil {
				return err
			}
		}
		if err := tm.WithGlobalTx(bare, &tm.GtxConfig{Name: "hot-mandatory", Propagation: tm.Mandatory}, func(c context.Context) error { return nil }); err == nil {
			return fmt.Errorf("mandatory without a transaction succeeded")
		}
		tm.UnbindXid(ctx)
		if tm.IsGlobalTx(ctx) {
			return fmt.Errorf("xid still bound")
		}
		return nil
	}},
	{"getty", func(e *env, g, i int) error {
		// an empty global transaction: id generator, session selection, future table, response dispatch
		_ = sgetty.GetGettyRemotingClient()
		_ = sgetty.GetGettyClientHandlerInstance()
		err := tm.WithGlobalTx(context.Background(), &tm.GtxConfig{Name: "hot-empty", Timeout: 10 * time.Second}, func(c context.Context) error { return nil })
		// session selection of every configured kind over a table of this phase's own sessions (the
		// counters behind LeastActive are the ones the traffic updates)
		xid := fmt.Sprintf("10.0.0.1:8091:%d", g*1000+i)
		for _, lb := range []string{"RandomLoadBalance", "XID", "RoundRobinLoadBalance", "ConsistentHashLoadBalance", "LeastActiveLoadBalance"} {
			if loadbalance.Select(lb, e.lbSessions, xid) == nil {
				return fmt.Errorf("%s selected no session", lb)
			}
		}
		return err // a request that died with its session is legal
	}},
	{"executor", func(e *env, g, i int) error {
		q := []string{"UPDATE t_int SET w1 = 1 WHERE id = 1", "DELETE FROM t_int WHERE id = 2", "INSERT INTO t_int (id, w1) VALUES (99, 1)",
			"SELECT w1 FROM t_int WHERE id = 3 FOR UPDATE"}[i%4]
		if _, err := exec.BuildExecutor(types.DBTypeMySQL, types.ATMode, q); err != nil {
			return err
		}
		pc, err := parser.DoParser(q)
		if err != nil {
			return err
		}
		if pc.SQLType == types.SQLTypeUnknown {
			return fmt.Errorf("statement kind unknown")
		}
		id := sqlpkg.XaIdBuild("10.0.0.1:8091:77", uint64(g*1000+i))
		if id.GetBranchId() != uint64(g*1000+i) {
			return fmt.Errorf("xa id")
		}
		return nil
	}},
}

type hotResult struct {
	workers, iters, errs, panics, hung int
	firstErr                           string
}

// hotPhase runs n goroutines over the loops (goroutine g runs loop g mod len) until the deadline,
// concurrently with each other and with whatever else runs.  One goroutine also registers a TCC action
// lazily, the way an application creates a service on first use.
func (e *env) hotPhase(bi, n int, d time.Duration) hotResult {
	res := hotResult{workers: n}
	// per-goroutine results, read after the join: a shared counter would order the loops for the race detector
	type local struct {
		iters, errs, panics int
		firstErr            string
	}
	locals := make([]local, n)
	deadline := time.Now().Add(d)
	done := make(chan int, n)
	for g := 0; g < n; g++ {
		go func(g int) {
			defer func() { done <- g }()
			lp := hotLoops[g%len(hotLoops)]
			my := &locals[g]
			for i := 0; time.Now().Before(deadline); i++ {
				func() {
					defer func() {
						if p := recover(); p != nil {
							my.panics++
							if my.firstErr == "" {
								my.firstErr = fmt.Sprintf("%s: panic: %v", lp.name, p)
							}
						}
					}()
					if g == 3 && i == 5 && os.Getenv("VERIF_STRESS_LATEOPEN") != "" {
						// what-if, not part of ./check: a data source opened while traffic runs (every sql.Open
						// of a proxy driver replaces the per-type table-meta cache in an unguarded package map)
						if db, err := sql.Open("seata-at-memsql", e.lab.DSN()); err == nil {
							_ = db.Ping()
							db.Close()
						}
					}
					if err := lp.body(e, g, i); err != nil {
						my.errs++
						if my.firstErr == "" {
							my.firstErr = lp.name + ": " + err.Error()
						}
					}
				}()
				my.iters++
			}
		}(g)
	}
	// one more lazily created TCC service, on a goroutine that has done nothing else
	const hotLate = 2
	lateDone := make(chan *action, hotLate)
	for k := 0; k < hotLate; k++ {
		go func(k int) {
			time.Sleep(d * time.Duration(k+1) / 4)
			lateDone <- e.tcc.registerLate(bi, lateRegs+k)
		}(k)
	}
	joined := make([]bool, n)
	finished := 0
	timeout := time.After(d + 45*time.Second)
wait:
	for finished < n {
		select {
		case g := <-done:
			joined[g] = true
			finished++
		case <-timeout:
			break wait
		}
	}
	for k := 0; k < hotLate; k++ {
		select {
		case a := <-lateDone:
			e.tcc.adopt(a)
		case <-time.After(45 * time.Second):
			res.hung++
		}
	}
	res.hung += n - finished
	for g := range locals {
		if !joined[g] {
			continue
		}
		res.iters += locals[g].iters
		res.errs += locals[g].errs
		res.panics += locals[g].panics
		if res.firstErr == "" {
			res.firstErr = locals[g].firstErr
		}
	}
	return res
}

// lbTable builds the session table the hot phase hands to the load balancers: sessions at the
// coordinator's address that are never registered with the client.
func lbTable(addr string) *sync.Map {
	m := &sync.Map{}
	for i := 0; i < 3; i++ {
		m.Store(tc.NewSession(fmt.Sprintf("lb%d", i), addr), true)
	}
	return m
}
