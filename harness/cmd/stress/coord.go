package main

import (
	"context"
	"fmt"
	"os"
	"runtime/pprof"
	"sync"
	"sync/atomic"
	"time"

	"seata.apache.org/seata-go/pkg/protocol/branch"
	"seata.apache.org/seata-go/pkg/protocol/message"
	"seata.apache.org/seata-go/pkg/rm"

	"verif/harness/tc"
)

var debug = os.Getenv("VERIF_STRESS_DEBUG") != ""

type reg struct {
	bid  int64
	rid  string
	bt   branch.BranchType
	data []byte
}

// tccBranch is what the coordinator knows about one registered TCC branch.
type tccBranch struct {
	xid        string
	rid        string
	decision   string // "" (undecided) | "commit" | "rollback"
	deliveries int    // phase-two requests sent for it
}

// coordinator scripts the stand-in the way the TC behaves: branches are registered per global
// transaction; after the global decision phase two is delivered asynchronously, branch by branch
// (commit in registration order, rollback in reverse order), each request repeated until the client
// reports the final status (at most five times); a transaction whose owner never told its decision is
// timed out (rolled back) at the end of the batch.  Requests go over the youngest open session.
type coordinator struct {
	tc *tc.TC

	mu       sync.Mutex
	regs     map[string][]reg // xid -> registered branches, until the global decision
	dead     map[string]bool  // global transactions the coordinator timed out while they were running
	tcc      map[int64]*tccBranch
	p2failed int // branches whose phase two never reported the final status
	swept    int // global transactions ended by the end-of-batch time-out
	p2       sync.WaitGroup
	early    atomic.Int64 // XA registrations seen (every sixth is timed out early)

	// Session bookkeeping is free of harness locks on the paths that run next to the client's code (a
	// lock here would order the client's accesses for the race detector): cur is read by the deliveries,
	// the list of open sessions belongs to whoever runs the churn (one goroutine at a time).
	cur      atomic.Pointer[tc.Session]
	sessions []*tc.Session // open sessions, oldest first
	nsess    int
}

func newCoordinator(t *tc.TC, first *tc.Session) *coordinator {
	c := &coordinator{tc: t, regs: map[string][]reg{}, dead: map[string]bool{}, tcc: map[int64]*tccBranch{}, sessions: []*tc.Session{first}, nsess: 1}
	c.cur.Store(first)
	t.Script = c.script
	return c
}

func (c *coordinator) resetBatch() {
	c.mu.Lock()
	c.tcc = map[int64]*tccBranch{}
	c.p2failed, c.swept = 0, 0
	c.mu.Unlock()
}

func (c *coordinator) live() *tc.Session { return c.cur.Load() }

// prepare attaches n sessions to the stand-in without opening them (attaching takes the stand-in's lock).
func (c *coordinator) prepare(n int) []*tc.Session {
	out := make([]*tc.Session, 0, n)
	for i := 0; i < n; i++ {
		c.nsess++
		out = append(out, c.tc.NewSession(fmt.Sprintf("s%d", c.nsess)))
	}
	return out
}

// open opens a prepared session on the client (real OnOpen: registration, TM and resource announcements).
func (c *coordinator) open(s *tc.Session) (live int) {
	if err := s.Open(); err != nil {
		panic(err)
	}
	c.sessions = append(c.sessions, s)
	c.cur.Store(s)
	return len(c.sessions)
}

// lose drops the oldest session the way getty reports a reset connection (never the last one: a client
// without any session polls for up to a minute, which is C19's business).
func (c *coordinator) lose() (live int, ok bool) {
	if len(c.sessions) < 2 {
		return len(c.sessions), false
	}
	old := c.sessions[0]
	c.sessions = append([]*tc.Session(nil), c.sessions[1:]...)
	old.Lose()
	return len(c.sessions), true
}

func (c *coordinator) script(kind string, m tc.Msg) (tc.Reply, bool) {
	switch req := m.Rpc.Body.(type) {
	case message.BranchRegisterRequest:
		c.mu.Lock()
		dead := c.dead[req.Xid]
		c.mu.Unlock()
		if dead {
			// the coordinator has timed this global transaction out: no more branches
			return tc.Reply{Body: message.BranchRegisterResponse{AbstractTransactionResponse: message.AbstractTransactionResponse{
				AbstractResultMessage: tc.FailResult("global transaction is not active")}}}, true
		}
		rep := c.tc.Model(kind, m)
		if resp, ok := rep.Body.(message.BranchRegisterResponse); ok && resp.ResultCode == message.ResultCodeSuccess {
			c.mu.Lock()
			c.regs[req.Xid] = append(c.regs[req.Xid], reg{resp.BranchId, req.ResourceId, req.BranchType, append([]byte(nil), req.ApplicationData...)})
			if req.BranchType == branch.BranchTypeTCC {
				c.tcc[resp.BranchId] = &tccBranch{xid: req.Xid, rid: req.ResourceId}
			}
			c.mu.Unlock()
		}
		return rep, true
	case message.GlobalCommitRequest:
		if c.isDead(req.Xid) {
			// timed out and being rolled back by the coordinator itself: the owner's commit comes too late
			return tc.Reply{Body: message.GlobalCommitResponse{AbstractGlobalEndResponse: message.AbstractGlobalEndResponse{
				AbstractTransactionResponse: message.AbstractTransactionResponse{AbstractResultMessage: tc.FailResult("global transaction timed out")},
				GlobalStatus:                message.GlobalStatusTimeoutRollbacking}}}, true
		}
		c.finish(req.Xid, c.take(req.Xid), true)
		return tc.Reply{}, false
	case message.GlobalRollbackRequest:
		if c.isDead(req.Xid) {
			return tc.Reply{Body: message.GlobalRollbackResponse{AbstractGlobalEndResponse: message.AbstractGlobalEndResponse{
				AbstractTransactionResponse: message.AbstractTransactionResponse{AbstractResultMessage: message.AbstractResultMessage{ResultCode: message.ResultCodeSuccess}},
				GlobalStatus:                message.GlobalStatusTimeoutRollbacking}}}, true
		}
		bs := c.take(req.Xid)
		rep := c.tc.Model(kind, m)
		c.finish(req.Xid, bs, false)
		return rep, true
	}
	return tc.Reply{}, false
}

// earlyTimeout is called when a database has carried out XA START for a branch of xid: for every sixth such
// branch the coordinator times the global transaction out while the branch is still in phase one - its
// rollback request races the rest of the statement (XA END / PREPARE, the connection going back to the pool or
// to the keeper).  (A rollback that overtakes XA START itself is another matter: XA mode has no marker like
// AT's to stop the late branch, and the properties do not ask for one.)
func (c *coordinator) earlyTimeout(xid string) {
	n := c.early.Add(1)
	if n%6 != 0 || os.Getenv("VERIF_STRESS_NOEARLY") != "" {
		return
	}
	c.p2.Add(1)
	go func() {
		defer c.p2.Done()
		time.Sleep(time.Duration((n%7)*300) * time.Microsecond)
		c.mu.Lock()
		c.dead[xid] = true
		c.mu.Unlock()
		if bs := c.take(xid); len(bs) > 0 {
			c.mu.Lock()
			c.swept++
			c.mu.Unlock()
			c.finishPatiently(xid, bs)
		}
	}()
}

func (c *coordinator) isDead(xid string) bool {
	c.mu.Lock()
	defer c.mu.Unlock()
	return c.dead[xid]
}

func (c *coordinator) take(xid string) []reg {
	c.mu.Lock()
	defer c.mu.Unlock()
	bs := c.regs[xid]
	delete(c.regs, xid)
	return bs
}

func (c *coordinator) finish(xid string, bs []reg, commit bool) {
	c.mu.Lock()
	for _, b := range bs {
		if tb := c.tcc[b.bid]; tb != nil {
			tb.decision = map[bool]string{true: "commit", false: "rollback"}[commit]
		}
	}
	c.mu.Unlock()
	c.p2.Add(1)
	go func() {
		defer c.p2.Done()
		if commit {
			for _, b := range bs {
				c.deliver(xid, b, true)
			}
			return
		}
		for i := len(bs) - 1; i >= 0; i-- {
			c.deliver(xid, bs[i], false)
			if bs[i].bt == branch.BranchTypeAT && bs[i].bid%4 == 0 && os.Getenv("VERIF_STRESS_NODUP") == "" {
				// (VERIF_STRESS_NODUP=1 switches it off: debugging aid)
				// the coordinator did not see the answer and asks again, twice: the first repetition finds the undo
				// log gone and leaves the marker, the second finds the marker - both are answered, nothing is kept
				c.deliver(xid, bs[i], false)
				c.deliver(xid, bs[i], false)
			}
		}
		c.tc.ReleaseLocks(xid)
	}()
}

// finishPatiently rolls the branches of a timed-out global transaction back the way the coordinator does it: in
// reverse order, each one retried until the client reports it rolled back (a branch that is still in phase one
// answers "retryable" until its statement is through) - for up to fifty seconds: under the race detector with
// GOMAXPROCS=2 and two dozen workers the application's statement can be kept off the processor for longer than
// ten, and a coordinator that gives up leaves the branch's connection held, which is then no finding of the client
func (c *coordinator) finishPatiently(xid string, bs []reg) {
	c.mu.Lock()
	for _, b := range bs {
		if tb := c.tcc[b.bid]; tb != nil {
			tb.decision = "rollback"
		}
	}
	c.mu.Unlock()
	for i := len(bs) - 1; i >= 0; i-- {
		c.deliverN(xid, bs[i], false, 2900)
	}
	c.tc.ReleaseLocks(xid)
}

func (c *coordinator) deliver(xid string, b reg, commit bool) { c.deliverN(xid, b, commit, 5) }

func (c *coordinator) deliverN(xid string, b reg, commit bool, tries int) {
	for try := 0; try < tries; try++ {
		if b.bt == branch.BranchTypeTCC {
			c.mu.Lock()
			if tb := c.tcc[b.bid]; tb != nil {
				tb.deliveries++
			}
			c.mu.Unlock()
		}
		var st branch.BranchStatus
		var ok bool
		if commit {
			st, ok = c.tc.BranchCommit(c.live(), xid, b.bid, b.bt, b.rid, b.data, 10*time.Second)
		} else {
			st, ok = c.tc.BranchRollback(c.live(), xid, b.bid, b.bt, b.rid, b.data, 10*time.Second)
		}
		if ok {
			switch st {
			case branch.BranchStatusPhasetwoCommitted, branch.BranchStatusPhasetwoRollbacked:
				if debug && tries > 5 {
					fmt.Fprintf(os.Stderr, "p2 early done: xid=%s bid=%d bt=%v try=%d status=%v\n", xid, b.bid, b.bt, try, st)
				}
				return
			case branch.BranchStatusPhasetwoCommitFailedUnretryable, branch.BranchStatusPhasetwoRollbackFailedUnretryable:
				if debug {
					fmt.Fprintf(os.Stderr, "p2 unretryable: xid=%s bid=%d bt=%v rid=%s commit=%v status=%v\n", xid, b.bid, b.bt, b.rid, commit, st)
				}
				c.mu.Lock()
				c.p2failed++
				c.mu.Unlock()
				return
			}
		}
		if debug {
			fmt.Fprintf(os.Stderr, "p2 retry: xid=%s bid=%d bt=%v rid=%s commit=%v ok=%v status=%v\n", xid, b.bid, b.bt, b.rid, commit, ok, st)
		}
		if tries > 5 && try < 400 {
			// the patient coordinator first retries in quick, uneven steps: the request that gets through is the one
			// that arrives just as the statement ends (prepare done, the connection on its way to the keeper)
			time.Sleep(time.Duration(40+31*(try%23)) * time.Microsecond)
		} else {
			time.Sleep(20 * time.Millisecond)
		}
	}
	if tries > 5 && os.Getenv("VERIF_STRESS_DUMP") != "" {
		fmt.Fprintf(os.Stderr, "P2-EXHAUSTED xid=%s bid=%d bt=%v rid=%s commit=%v\n", xid, b.bid, b.bt, b.rid, commit)
		_ = pprof.Lookup("goroutine").WriteTo(os.Stderr, 1) // debugging aid: where is the application's statement
		// ... and what the resource manager itself says when asked once more
		if mgr := rm.GetRmCacheInstance().GetResourceManager(b.bt); mgr != nil {
			st, err := mgr.BranchRollback(context.Background(), rm.BranchResource{BranchType: b.bt, Xid: xid, BranchId: b.bid, ResourceId: b.rid, ApplicationData: b.data})
			fmt.Fprintf(os.Stderr, "P2-DIRECT status=%v err=%v\n", st, err)
		}
	}
	c.mu.Lock()
	c.p2failed++
	c.mu.Unlock()
}

// sweep times out the global transactions that are still undecided (their owner failed to send the
// decision): the coordinator rolls them back.
func (c *coordinator) sweep() {
	c.mu.Lock()
	left := c.regs
	c.regs = map[string][]reg{}
	c.swept += len(left)
	c.mu.Unlock()
	for xid, bs := range left {
		c.finish(xid, bs, false)
	}
}

// tccVerdict compares, per registered TCC branch of a decided global transaction, what the coordinator
// delivered with what the user methods saw: nop2 = branches no second-phase method ever ran for;
// extra = branches whose methods ran more often than requests were delivered, or ran the other method.
func (c *coordinator) tccVerdict(book *tccBook) (branches, nop2, extra int) {
	c.mu.Lock()
	defer c.mu.Unlock()
	book.mu.Lock()
	defer book.mu.Unlock()
	for bid, tb := range c.tcc {
		if tb.decision == "" {
			continue
		}
		branches++
		inv := book.inv[bid]
		if len(inv) == 0 {
			nop2++
			continue
		}
		bad := len(inv) > tb.deliveries
		for _, k := range inv {
			if k != tb.decision {
				bad = true
			}
		}
		if bad {
			extra++
		}
	}
	return
}

// fenceVerdict: a fenced branch whose try ran must show exactly one business effect of the decided
// second phase and none of the other; a branch whose try never ran must show none at all.
func (c *coordinator) fenceVerdict(l *tccLab) (fenced, dup int) {
	eff := l.effects()
	c.mu.Lock()
	defer c.mu.Unlock()
	for bid, tb := range c.tcc {
		if tb.decision == "" || !l.isFenced(tb.rid) {
			continue
		}
		fenced++
		key := func(ph string) int { return eff[fmt.Sprintf("%s/%d/%s", tb.xid, bid, ph)] }
		other := "rollback"
		if tb.decision == "rollback" {
			other = "commit"
		}
		tried := key("prepare")
		want := 1
		if tried == 0 {
			want = 0
		}
		if tried > 1 || key(tb.decision) != want || key(other) != 0 {
			dup++
		}
	}
	return
}
