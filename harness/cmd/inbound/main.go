// Driver for Inbound.tla (C15): streams of coordinator phase-two requests (branch commit / rollback,
// mixed branch types) are delivered concurrently on one fake session through the client's real
// OnMessage dispatch; recording stub resource managers (package rmstub) stand for the three managers
// and return scripted outcomes in the order TLC chose; the responses the coordinator receives are
// observed at the session.  One trace per stream.
package main

import (
	"encoding/json"
	"errors"
	"fmt"
	"math/rand"
	"strings"
	"sync"
	"sync/atomic"
	"time"

	"seata.apache.org/seata-go/pkg/protocol/branch"
	"seata.apache.org/seata-go/pkg/protocol/message"
	sgetty "seata.apache.org/seata-go/pkg/remoting/getty"
	"seata.apache.org/seata-go/pkg/rm"

	"verif/harness/common"
	"verif/harness/rmstub"
	"verif/harness/tc"
	"verif/harness/trace"
)

type req struct {
	Kind   string `json:"kind"`
	Btype  string `json:"btype"`
	Xid    int    `json:"xid"`
	Bid    int    `json:"bid"`
	Rid    int    `json:"rid"`
	Status int    `json:"status"`
	Err    bool   `json:"err"`
}

type step struct {
	Op  string `json:"op"` // "d" deliver request pos, "c" let the manager of request pos return
	Pos int    `json:"pos"`
}

type scenario struct {
	Reqs  []req  `json:"reqs"`
	Order []int  `json:"order,omitempty"` // TLC scenarios: all requests in flight, then completions in this order
	Sched []step `json:"sched,omitempty"` // random scenarios: any valid interleaving
}

type slot struct {
	r       *runner
	pos     int // 0-based
	q       req
	msgID   int32
	xid     string
	bid     int64
	rid     string
	data    []byte
	sig     string
	release chan struct{}
	relOnce sync.Once
	entered chan struct{}
	entOnce sync.Once
	done    chan struct{}
	replies int32
	invoked int32
}

type runner struct {
	zero *slot // the request of this scenario that carries message id 0 (at most one in flight process-wide)
	i     int
	sc    scenario
	t     *trace.T
	slots []*slot
}

var (
	byTag   sync.Map // string(ApplicationData) -> *slot
	byMsg   sync.Map // message id -> *slot
	zeroMu  sync.Mutex // serialises the scenarios whose first request carries message id 0
	byPlace sync.Map // xid/bid/kind -> *slot (fallback attribution of mis-addressed responses)
	orphans int64
	sess    *tc.Session
)

const watchdog = 3 * time.Second

func sigOf(q req) string {
	e := 0
	if q.Err {
		e = 1
	}
	return fmt.Sprintf("%s/%s/st%d/err%d", q.Kind, q.Btype, q.Status, e)
}

// the stub managers' behaviour
func handler(mgr branch.BranchType, op string, res rm.BranchResource) (branch.BranchStatus, error) {
	v, ok := byTag.Load(string(res.ApplicationData))
	if !ok {
		if v2, ok2 := byPlace.Load(fmt.Sprintf("%s/%d/%s", res.Xid, res.BranchId, op)); ok2 {
			// arguments garbled: record what the manager saw in the trace of the request it most likely belongs to
			s := v2.(*slot)
			s.r.t.Add("Invoke", "mgr", rmstub.Name(mgr), "op", op, "id", -1, "xid", res.Xid, "bid", res.BranchId,
				"rid", res.ResourceId, "sig", s.sig+"/garbled-data")
		}
		atomic.AddInt64(&orphans, 1)
		return branch.BranchStatusUnknown, errors.New("stub: unknown application data")
	}
	s := v.(*slot)
	atomic.AddInt32(&s.invoked, 1)
	s.r.t.Add("Invoke", "mgr", rmstub.Name(mgr), "op", op, "id", int(s.msgID), "xid", res.Xid, "bid", res.BranchId,
		"rid", res.ResourceId, "sig", s.sig)
	s.entOnce.Do(func() { close(s.entered) })
	select {
	case <-s.release:
	case <-time.After(30 * time.Second):
	}
	s.r.t.Add("Ret", "id", int(s.msgID), "status", s.q.Status, "err", s.q.Err, "sig", s.sig)
	if s.q.Err {
		return branch.BranchStatus(s.q.Status), errors.New("stub manager failed")
	}
	return branch.BranchStatus(s.q.Status), nil
}

// what the coordinator sees
func observe(rec tc.Record) {
	if rec.Dir != "in" {
		return
	}
	var (
		kind       string
		xid        string
		bid        int64
		status, rc int
	)
	switch b := rec.Body.(type) {
	case message.BranchCommitResponse:
		kind, xid, bid, status, rc = "commit", b.Xid, b.BranchId, int(b.BranchStatus), int(b.ResultCode)
	case message.BranchRollbackResponse:
		kind, xid, bid, status, rc = "rollback", b.Xid, b.BranchId, int(b.BranchStatus), int(b.ResultCode)
	default:
		return
	}
	v, ok := byMsg.Load(rec.ID)
	if !ok {
		v, ok = byPlace.Load(fmt.Sprintf("%s/%d/%s", xid, bid, kind))
		if !ok {
			atomic.AddInt64(&orphans, 1)
			return
		}
	}
	s := v.(*slot)
	atomic.AddInt32(&s.replies, 1)
	s.r.t.Add("Resp", "id", int(rec.ID), "kind", kind, "xid", xid, "bid", bid, "status", status, "code", rc, "sig", s.sig)
}

func (r *runner) deliver(s *slot) {
	end := message.AbstractBranchEndRequest{Xid: s.xid, BranchId: s.bid, BranchType: rmstub.Types[s.q.Btype],
		ResourceId: s.rid, ApplicationData: s.data}
	var body interface{}
	if s.q.Kind == "commit" {
		body = message.BranchCommitRequest{AbstractBranchEndRequest: end}
	} else {
		body = message.BranchRollbackRequest{AbstractBranchEndRequest: end}
	}
	go func() {
		defer close(s.done)
		defer func() {
			if p := recover(); p != nil {
				r.t.Add("Panic", "id", int(s.msgID), "sig", s.sig)
			}
		}()
		sess.Deliver(message.RpcMessage{ID: s.msgID, Type: message.GettyRequestTypeRequestSync, Codec: 1, Body: body})
	}()
}

func wait(ch chan struct{}, d time.Duration) bool {
	select {
	case <-ch:
		return true
	case <-time.After(d):
		return false
	}
}

func (r *runner) run(seed int64) {
	defer r.t.Close()
	r.t.Add("Start", "cn", len(r.slots), "sig", "start")
	sched := r.sc.Sched
	if sched == nil {
		rnd := rand.New(rand.NewSource(seed*7919 + int64(r.i)))
		for _, p := range rnd.Perm(len(r.slots)) {
			sched = append(sched, step{"d", p + 1})
		}
		for _, p := range r.sc.Order {
			sched = append(sched, step{"c", p})
		}
	}
	var batch []*slot
	flush := func() {
		for _, s := range batch {
			if !wait(s.entered, watchdog) {
				// the request did not reach its manager: it either ended without one (done) or hangs
				wait(s.done, 10*time.Millisecond)
			}
		}
		batch = nil
	}
	for _, st := range sched {
		s := r.slots[st.Pos-1]
		switch st.Op {
		case "d":
			r.t.Add("Req", "id", int(s.msgID), "kind", s.q.Kind, "btype", s.q.Btype, "xid", s.xid, "bid", s.bid,
				"rid", s.rid, "status", s.q.Status, "err", s.q.Err, "sig", s.sig)
			r.deliver(s)
			batch = append(batch, s)
		case "c":
			flush()
			s.relOnce.Do(func() { close(s.release) })
			if !wait(s.done, watchdog) {
				r.t.Add("Hang", "id", int(s.msgID), "sig", s.sig)
			}
		}
	}
	flush()
	for _, s := range r.slots {
		s.relOnce.Do(func() { close(s.release) })
	}
	missing := "ok"
	for _, s := range r.slots {
		if !wait(s.done, watchdog) {
			r.t.Add("Hang", "id", int(s.msgID), "sig", s.sig)
		}
	}
	time.Sleep(200 * time.Microsecond)
	for _, s := range r.slots {
		if atomic.LoadInt32(&s.invoked) == 0 {
			missing = "notrouted:" + s.sig
			break
		}
		if !s.q.Err && atomic.LoadInt32(&s.replies) == 0 {
			missing = "noreply:" + s.sig
			break
		}
	}
	r.t.Add("End", "sig", missing)
	for _, s := range r.slots {
		byTag.Delete(string(s.data))
		byMsg.Delete(s.msgID)
		byPlace.Delete(fmt.Sprintf("%s/%d/%s", s.xid, s.bid, s.q.Kind))
	}
}

func randomScenario(rnd *rand.Rand) scenario {
	n := 3 + rnd.Intn(3)
	var sc scenario
	kinds := []string{"commit", "rollback"}
	bts := []string{"AT", "TCC", "XA"}
	for k := 0; k < n; k++ {
		q := req{Kind: kinds[rnd.Intn(2)], Btype: bts[rnd.Intn(3)], Xid: 1 + rnd.Intn(2), Bid: 1 + rnd.Intn(3),
			Rid: 1 + rnd.Intn(2), Status: rnd.Intn(11), Err: rnd.Intn(10) < 3}
		if rnd.Intn(4) == 0 { // the plain success statuses more often
			if q.Kind == "commit" {
				q.Status = 5
			} else {
				q.Status = 8
			}
		}
		sc.Reqs = append(sc.Reqs, q)
	}
	// a random valid interleaving of deliveries and completions
	var waiting, inflight []int
	for k := 1; k <= n; k++ {
		waiting = append(waiting, k)
	}
	rnd.Shuffle(len(waiting), func(a, b int) { waiting[a], waiting[b] = waiting[b], waiting[a] })
	for len(waiting)+len(inflight) > 0 {
		if len(waiting) > 0 && (len(inflight) == 0 || rnd.Intn(3) > 0) {
			sc.Sched = append(sc.Sched, step{"d", waiting[0]})
			inflight = append(inflight, waiting[0])
			waiting = waiting[1:]
		} else {
			j := rnd.Intn(len(inflight))
			sc.Sched = append(sc.Sched, step{"c", inflight[j]})
			inflight = append(inflight[:j], inflight[j+1:]...)
		}
	}
	return sc
}

func classOf(sc scenario) string {
	var b strings.Builder
	for _, q := range sc.Reqs {
		b.WriteString(sigOf(q) + " ")
	}
	if sc.Sched != nil {
		for _, s := range sc.Sched {
			fmt.Fprintf(&b, "%s%d", s.Op, s.Pos)
		}
	} else {
		fmt.Fprintf(&b, "order=%v", sc.Order)
	}
	return b.String()
}

func main() {
	o := common.Parse()
	tc.InitClient(tc.DefaultConfig())
	coord := tc.NewTC("10.0.0.1:8091")
	coord.Observe = observe
	// a client request of its own that is still waiting for its answer (held back here) while the scenario runs
	pendID := make(chan int32, 1)
	var pendHold chan struct{}
	var pendMu sync.Mutex
	coord.Script = func(kind string, m tc.Msg) (tc.Reply, bool) {
		if req, ok := m.Rpc.Body.(message.GlobalBeginRequest); ok && strings.HasPrefix(req.TransactionName, "pend-") {
			rep := coord.Model(kind, m)
			rep.HoldBack = pendHold
			pendID <- m.Rpc.ID
			return rep, true
		}
		return tc.Reply{}, false
	}
	sess = coord.OpenSession("s1")
	time.Sleep(50 * time.Millisecond) // the RegisterTM the client sends on open
	rmstub.Install(handler)

	var scs []scenario
	if o.Scenarios != "" {
		raws, err := trace.ReadScenarios(o.Scenarios)
		if err != nil {
			common.Fatal("%v", err)
		}
		for i, raw := range raws {
			var sc scenario
			if err := json.Unmarshal(raw, &sc); err != nil {
				common.Fatal("scenario %d: %v", i, err)
			}
			scs = append(scs, sc)
		}
	}
	nTLC := len(scs)
	nRand := 300
	if o.Thorough() {
		nRand = 3000
	}
	rnd := o.Rand(15)
	for k := 0; k < nRand; k++ {
		scs = append(scs, randomScenario(rnd))
	}
	w, err := trace.NewWriter(o.Out)
	if err != nil {
		common.Fatal("%v", err)
	}
	pad := strings.Repeat("x", int(o.Seed%5)*7)
	sem := make(chan struct{}, 16)
	var wg sync.WaitGroup
	for i, sc := range scs {
		if !o.Want(i) {
			continue
		}
		r := &runner{i: i, sc: sc}
		r.t = w.Begin(map[string]interface{}{"i": i, "sc": sc}, classOf(sc))
		for p, q := range sc.Reqs {
			s := &slot{r: r, pos: p, q: q, msgID: int32(1<<20 + i*8 + p), sig: sigOf(q),
				xid:     fmt.Sprintf("10.0.0.1:8091:%d", 5_000_000+o.Seed*100_000_000+int64(i)*4+int64(q.Xid)),
				bid:     o.Seed*1_000_000_000 + int64(i)*10 + int64(q.Bid),
				release: make(chan struct{}), entered: make(chan struct{}), done: make(chan struct{})}
			if q.Rid == 1 {
				s.rid = "jdbc:mysql://db/known"
			} else {
				s.rid = fmt.Sprintf("never-registered-%d", i)
			}
			s.data = []byte(fmt.Sprintf(`{"s":%d,"p":%d,"pad":"%s"}`, i, p, pad))
			byTag.Store(string(s.data), s)
			if p == 0 && i%16 == 0 {
				// the coordinator's message counter starts at (or wraps to) 0: one request at a time carries that id
				s.msgID = 0
				r.zero = s
			} else {
				byMsg.Store(s.msgID, s)
			}
			byPlace.Store(fmt.Sprintf("%s/%d/%s", s.xid, s.bid, q.Kind), s)
			r.slots = append(r.slots, s)
		}
		wg.Add(1)
		sem <- struct{}{}
		go func(r *runner) {
			defer wg.Done()
			defer func() { <-sem }()
			if r.zero != nil {
				zeroMu.Lock()
				defer zeroMu.Unlock()
				byMsg.Store(int32(0), r.zero)
			}
			if r.i%16 == 8 && len(r.slots) > 0 {
				// the coordinator numbers its requests by itself: the first request of this scenario carries the
				// id of a request of the client's own that is still waiting for its answer (one scenario at a time)
				pendMu.Lock()
				defer pendMu.Unlock()
				pendHold = make(chan struct{})
				callDone := make(chan struct{})
				go func() {
					defer close(callDone)
					defer func() { recover() }()
					_, _ = sgetty.GetGettyRemotingClient().SendSyncRequest(message.GlobalBeginRequest{TransactionName: fmt.Sprintf("pend-%d", r.i), Timeout: 30 * time.Second})
				}()
				select {
				case id := <-pendID:
					s0 := r.slots[0]
					byMsg.Delete(s0.msgID)
					s0.msgID = id
					byMsg.Store(id, s0)
				case <-time.After(3 * time.Second):
				}
				defer func() {
					close(pendHold)
					<-callDone
				}()
			}
			r.run(o.Seed)
		}(r)
	}
	wg.Wait()
	if err := w.Close(); err != nil {
		common.Fatal("%v", err)
	}
	fmt.Printf("DRIVER-OK traces=%d scenarios=%d tlc=%d random=%d orphans=%d\n", w.Count(), len(scs), nTLC, nRand, atomic.LoadInt64(&orphans))
}
