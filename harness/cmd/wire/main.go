// Driver for WireLayout.tla (C12): the layout table and the boundary vectors are exported by TLC
// (specs/WireLayout_MC.tla, Dump); for every vector the real message struct is built, the real
// codec.GetCodecManager().Encode / Decode are called, and the result is compared byte for byte with
// an independent interpreter of the exported table.  One trace per vector; one more trace for the
// codec look-ups of every type the client sends or expects.
//
// The only hand-written knowledge about /repo in this file is goType / goField: which Go struct a
// message type of the table is and which struct field a table field is.  Field order, widths,
// prefixes, conditions, truncation limits and type codes all come from the exported table.
package main

import (
	"bytes"
	"encoding/binary"
	"encoding/json"
	"fmt"
	"math"
	"math/rand"
	"reflect"
	"sort"
	"strings"
	"time"

	"seata.apache.org/seata-go/pkg/protocol/codec"
	"seata.apache.org/seata-go/pkg/protocol/message"

	"verif/harness/common"
	"verif/harness/trace"
)

// ---------------------------------------------------------------- hand-written mapping (the only one)

var goType = map[string]reflect.Type{
	"GlobalBeginRequest":      reflect.TypeOf(message.GlobalBeginRequest{}),
	"GlobalBeginResponse":     reflect.TypeOf(message.GlobalBeginResponse{}),
	"BranchCommitRequest":     reflect.TypeOf(message.BranchCommitRequest{}),
	"BranchCommitResponse":    reflect.TypeOf(message.BranchCommitResponse{}),
	"BranchRollbackRequest":   reflect.TypeOf(message.BranchRollbackRequest{}),
	"BranchRollbackResponse":  reflect.TypeOf(message.BranchRollbackResponse{}),
	"GlobalCommitRequest":     reflect.TypeOf(message.GlobalCommitRequest{}),
	"GlobalCommitResponse":    reflect.TypeOf(message.GlobalCommitResponse{}),
	"GlobalRollbackRequest":   reflect.TypeOf(message.GlobalRollbackRequest{}),
	"GlobalRollbackResponse":  reflect.TypeOf(message.GlobalRollbackResponse{}),
	"BranchRegisterRequest":   reflect.TypeOf(message.BranchRegisterRequest{}),
	"BranchRegisterResponse":  reflect.TypeOf(message.BranchRegisterResponse{}),
	"BranchReportRequest":     reflect.TypeOf(message.BranchReportRequest{}),
	"BranchReportResponse":    reflect.TypeOf(message.BranchReportResponse{}),
	"GlobalStatusRequest":     reflect.TypeOf(message.GlobalStatusRequest{}),
	"GlobalStatusResponse":    reflect.TypeOf(message.GlobalStatusResponse{}),
	"GlobalReportRequest":     reflect.TypeOf(message.GlobalReportRequest{}),
	"GlobalReportResponse":    reflect.TypeOf(message.GlobalReportResponse{}),
	"GlobalLockQueryRequest":  reflect.TypeOf(message.GlobalLockQueryRequest{}),
	"GlobalLockQueryResponse": reflect.TypeOf(message.GlobalLockQueryResponse{}),
	"RegisterTMRequest":       reflect.TypeOf(message.RegisterTMRequest{}),
	"RegisterTMResponse":      reflect.TypeOf(message.RegisterTMResponse{}),
	"RegisterRMRequest":       reflect.TypeOf(message.RegisterRMRequest{}),
	"RegisterRMResponse":      reflect.TypeOf(message.RegisterRMResponse{}),
}

// table field name -> Go struct field (possibly promoted from an embedded struct)
var goField = map[string]string{
	"xid": "Xid", "branchId": "BranchId", "branchType": "BranchType", "resourceId": "ResourceId",
	"applicationData": "ApplicationData", "extraData": "ExtraData", "lockKey": "LockKey",
	"resultCode": "ResultCode", "msg": "Msg", "transactionErrorCode": "TransactionErrorCode",
	"globalStatus": "GlobalStatus", "branchStatus": "BranchStatus", "status": "Status",
	"timeout": "Timeout", "transactionName": "TransactionName",
	"version": "Version", "applicationId": "ApplicationId", "transactionServiceGroup": "TransactionServiceGroup",
	"resourceIds": "ResourceIds", "identified": "Identified", "lockable": "Lockable",
}

// ---------------------------------------------------------------- the exported table

type desc struct {
	F     string `json:"f"`
	K     string `json:"k"`
	Cf    string `json:"cf"`
	Cv    int    `json:"cv"`
	Trunc int    `json:"trunc"`
}

type table struct {
	Table   map[string][]desc `json:"table"`
	Codes   map[string]int    `json:"codes"`
	Sends   []string          `json:"sends"`
	Expects []string          `json:"expects"`
}

type vector struct {
	Ty string                 `json:"ty"`
	M  map[string]interface{} `json:"m"`
}

// a concrete field value
type val struct {
	b []byte // strings and byte fields
	u uint64 // u8, i64 (two's complement), ms32 (milliseconds)
	t bool   // booleans
}

// ---------------------------------------------------------------- independent table interpreter

func width(k string) int {
	switch k {
	case "str8":
		return 1
	case "str16", "bytes16":
		return 2
	case "str32", "bytes32":
		return 4
	}
	return 0
}

func isStr(k string) bool { return width(k) > 0 }

func prefixMax(k string) int {
	switch width(k) {
	case 1:
		return math.MaxUint8
	case 2:
		return math.MaxUint16
	}
	return math.MaxUint32
}

func present(d desc, vals map[string]val) bool {
	return d.Cf == "" || int(vals[d.Cf].u) == d.Cv
}

func putUint(b []byte, w int, x uint64) []byte {
	for i := w - 1; i >= 0; i-- {
		b = append(b, byte(x>>(8*uint(i))))
	}
	return b
}

func boolU(t bool) uint64 {
	if t {
		return 1
	}
	return 0
}

// wireNormal: what the peer must end up with (absent fields zero, truncatable field cut to `cut` bytes)
func (tb *table) wireNormal(ty string, vals map[string]val, cut int) map[string]val {
	out := map[string]val{}
	for _, d := range tb.Table[ty] {
		v := vals[d.F]
		if !present(d, vals) {
			v = val{}
		} else if d.Trunc > 0 && cut >= 0 && cut < len(v.b) {
			v = val{b: v.b[:cut]}
		}
		out[d.F] = v
	}
	return out
}

// encode a wire-normal message
func (tb *table) encode(ty string, w map[string]val) []byte {
	b := putUint(nil, 2, uint64(tb.Codes[ty]))
	for _, d := range tb.Table[ty] {
		if !present(d, w) {
			continue
		}
		v := w[d.F]
		switch d.K {
		case "u8":
			b = append(b, byte(v.u))
		case "bool8":
			b = putUint(b, 1, boolU(v.t))
		case "bool16":
			b = putUint(b, 2, boolU(v.t))
		case "ms32":
			b = putUint(b, 4, v.u)
		case "i64":
			b = putUint(b, 8, v.u)
		default:
			b = putUint(b, width(d.K), uint64(len(v.b)))
			b = append(b, v.b...)
		}
	}
	return b
}

// offset and width of the length prefix of the truncatable field that is on the wire (ok=false: none)
func (tb *table) truncPrefix(ty string, vals map[string]val) (d desc, off int, ok bool) {
	off = 2
	for _, x := range tb.Table[ty] {
		if !present(x, vals) {
			continue
		}
		if x.Trunc > 0 {
			return x, off, true
		}
		if isStr(x.K) {
			off += width(x.K) + len(vals[x.F].b)
		} else {
			off += map[string]int{"u8": 1, "bool8": 1, "bool16": 2, "ms32": 4, "i64": 8}[x.K]
		}
	}
	return desc{}, 0, false
}

// decode by the table; left = bytes not consumed (-1: ran out of bytes)
func (tb *table) decode(ty string, b []byte) (map[string]val, int) {
	out := map[string]val{}
	if len(b) < 2 || int(binary.BigEndian.Uint16(b)) != tb.Codes[ty] {
		return out, -1
	}
	p := 2
	take := func(n int) ([]byte, bool) {
		if n < 0 || p+n > len(b) {
			return nil, false
		}
		s := b[p : p+n]
		p += n
		return s, true
	}
	num := func(n int) (uint64, bool) {
		s, ok := take(n)
		var x uint64
		for _, c := range s {
			x = x<<8 | uint64(c)
		}
		return x, ok
	}
	for _, d := range tb.Table[ty] {
		if !present(d, out) {
			out[d.F] = val{}
			continue
		}
		var v val
		var ok bool
		switch d.K {
		case "u8":
			v.u, ok = num(1)
		case "bool8":
			v.u, ok = num(1)
			v.t, v.u = v.u == 1, 0
		case "bool16":
			v.u, ok = num(2)
			v.t, v.u = v.u == 1, 0
		case "ms32":
			v.u, ok = num(4)
		case "i64":
			v.u, ok = num(8)
		default:
			var n uint64
			if n, ok = num(width(d.K)); ok {
				v.b, ok = take(int(n))
			}
		}
		if !ok {
			return out, -1
		}
		out[d.F] = v
	}
	return out, len(b) - p
}

func sameVals(a, b map[string]val) bool {
	if len(a) != len(b) {
		return false
	}
	for k, x := range a {
		y, ok := b[k]
		if !ok || !bytes.Equal(x.b, y.b) || x.u != y.u || x.t != y.t {
			return false
		}
	}
	return true
}

// ---------------------------------------------------------------- real message structs

// build the real message.* value for (ty, vals); fields that are not in the table stay zero
func (tb *table) build(ty string, vals map[string]val, r *rand.Rand) reflect.Value {
	t, ok := goType[ty]
	if !ok {
		common.Fatal("no Go type for message type %q of the exported table", ty)
	}
	p := reflect.New(t).Elem()
	for _, d := range tb.Table[ty] {
		name, ok := goField[d.F]
		if !ok {
			common.Fatal("no Go field for table field %q", d.F)
		}
		f := p.FieldByName(name)
		if !f.IsValid() {
			common.Fatal("%s has no field %s", ty, name)
		}
		v := vals[d.F]
		switch d.K {
		case "u8":
			switch f.Kind() {
			case reflect.Uint8, reflect.Uint16, reflect.Uint32, reflect.Uint64, reflect.Uint:
				f.SetUint(v.u)
			case reflect.Int8:
				f.SetInt(int64(int8(byte(v.u))))
			default:
				f.SetInt(int64(v.u))
			}
		case "i64":
			f.SetInt(int64(v.u))
		case "ms32":
			f.SetInt(int64(v.u) * int64(time.Millisecond))
		case "bool8", "bool16":
			f.SetBool(v.t)
		default:
			if f.Kind() == reflect.String {
				f.SetString(string(v.b))
			} else if len(v.b) == 0 && r != nil && r.Intn(2) == 0 {
				f.SetBytes([]byte{}) // empty, not nil: must be the same on the wire
			} else if len(v.b) > 0 {
				f.SetBytes(append([]byte(nil), v.b...))
			}
		}
	}
	return p
}

// empty byte slices and nil are the same message
func normalize(v reflect.Value) {
	switch v.Kind() {
	case reflect.Struct:
		for i := 0; i < v.NumField(); i++ {
			normalize(v.Field(i))
		}
	case reflect.Slice:
		if v.Len() == 0 && v.CanSet() {
			v.Set(reflect.Zero(v.Type()))
		}
	}
}

func equalMsg(got interface{}, want reflect.Value) bool {
	if got == nil || reflect.TypeOf(got) != want.Type() {
		return false
	}
	g := reflect.New(want.Type()).Elem()
	g.Set(reflect.ValueOf(got))
	w := reflect.New(want.Type()).Elem()
	w.Set(want)
	normalize(g)
	normalize(w)
	return reflect.DeepEqual(g.Interface(), w.Interface())
}

func safeEncode(msg interface{}) (b []byte, pan interface{}) {
	defer func() {
		if p := recover(); p != nil {
			pan = p
		}
	}()
	return codec.GetCodecManager().Encode(codec.CodecTypeSeata, msg), nil
}

// stableAfterDecoy: the body Encode returned belongs to its caller (the frame writer copies it into the frame
// later, while other goroutines encode their own messages): it must still be the same bytes after the codec
// manager has encoded other messages, shorter and longer ones.
func stableAfterDecoy(real []byte) bool {
	if real == nil {
		return true
	}
	snap := append([]byte(nil), real...)
	for _, d := range []interface{}{
		message.GlobalCommitRequest{AbstractGlobalEndRequest: message.AbstractGlobalEndRequest{Xid: "decoy"}},
		message.BranchRegisterRequest{Xid: strings.Repeat("decoy-xid:", 40), ResourceId: strings.Repeat("r", 300), LockKey: strings.Repeat("t:1;", 500)},
		message.GlobalBeginRequest{TransactionName: "d"},
	} {
		if _, pan := safeEncode(d); pan != nil {
			return true // a panicking encoder is reported where that message is the subject
		}
	}
	return bytes.Equal(real, snap)
}

func safeDecode(b []byte) (v interface{}, pan interface{}) {
	defer func() {
		if p := recover(); p != nil {
			pan = p
		}
	}()
	return codec.GetCodecManager().Decode(codec.CodecTypeSeata, b), nil
}

// ---------------------------------------------------------------- classes -> concrete values

var runes = []string{"é", "ß", "中", "文", "키", "😀", "𝔘"}

// n bytes of text: ascii, multi-byte UTF-8 (exactly n bytes, padded with ASCII), or arbitrary bytes
func fill(r *rand.Rand, n int, binaryOK bool) []byte {
	b := make([]byte, 0, n)
	mode := r.Intn(5)
	switch {
	case mode <= 1:
		const al = "abcdefghijklmnopqrstuvwxyz0123456789:-._/ "
		for len(b) < n {
			b = append(b, al[r.Intn(len(al))])
		}
	case mode <= 3 || !binaryOK:
		for len(b) < n {
			s := runes[r.Intn(len(runes))]
			if r.Intn(4) == 0 || len(b)+len(s) > n {
				s = string(rune('a' + r.Intn(26)))
			}
			b = append(b, s...)
		}
	default:
		for len(b) < n {
			b = append(b, byte(r.Intn(256)))
		}
	}
	return b
}

func lenClass(n int, random bool) string {
	if !random {
		return fmt.Sprintf("L%d", n)
	}
	switch {
	case n == 0:
		return "R0"
	case n <= 127:
		return "Rle127"
	case n <= 255:
		return "R128to255"
	case n <= 32767:
		return "R256to32767"
	case n <= 65535:
		return "R32768to65535"
	}
	return "Rgt65535"
}

func u8Class(n int, random bool) string {
	if !random || n == 0 || n == 1 || n == 255 {
		return fmt.Sprintf("v%d", n)
	}
	return "vmid"
}

// concrete values and class coordinates for the abstract message m
func (tb *table) instantiate(ty string, m map[string]interface{}, random bool, r *rand.Rand) (map[string]val, string) {
	vals := map[string]val{}
	var cls []string
	for _, d := range tb.Table[ty] {
		a, ok := m[d.F]
		if !ok {
			common.Fatal("vector of %s lacks field %s", ty, d.F)
		}
		var v val
		var c string
		switch d.K {
		case "u8":
			n := int(a.(float64))
			v.u, c = uint64(n), u8Class(n, random)
		case "bool8", "bool16":
			v.t = a.(bool)
			c = map[bool]string{true: "T", false: "F"}[v.t]
		case "i64":
			c = a.(string)
			switch c {
			case "zero":
				v.u = 0
			case "one":
				v.u = 1
			case "max":
				v.u = math.MaxInt64
			case "minus1":
				v.u = math.MaxUint64
			case "min":
				v.u = 1 << 63
			case "rand":
				v.u = r.Uint64()
			default:
				common.Fatal("unknown i64 class %q", c)
			}
		case "ms32":
			c = a.(string)
			switch c {
			case "d0":
				v.u = 0
			case "d1":
				v.u = 1
			case "dmax31":
				v.u = math.MaxInt32
			case "dmax32":
				v.u = math.MaxUint32
			case "drand":
				v.u = uint64(r.Int63n(1 << 32))
			default:
				common.Fatal("unknown duration class %q", c)
			}
		default:
			n := int(a.(float64))
			v.b, c = fill(r, n, strings.HasPrefix(d.K, "bytes")), lenClass(n, random)
		}
		vals[d.F] = v
		cls = append(cls, d.F+"="+c)
	}
	return vals, ty + ":" + strings.Join(cls, ",")
}

// a random abstract message: lengths over all buckets and around every boundary, any byte, any id
func (tb *table) randomVector(ty string, r *rand.Rand) map[string]interface{} {
	m := map[string]interface{}{}
	for _, d := range tb.Table[ty] {
		switch d.K {
		case "u8":
			n := r.Intn(256)
			if d.F == "resultCode" && r.Intn(2) == 0 {
				n = 0 // Failed: the message is on the wire
			}
			m[d.F] = float64(n)
		case "bool8", "bool16":
			m[d.F] = r.Intn(2) == 0
		case "i64":
			m[d.F] = []string{"rand", "rand", "rand", "min"}[r.Intn(4)]
		case "ms32":
			m[d.F] = "drand"
		default:
			limit := prefixMax(d.K)
			if limit > 200000 {
				limit = 200000
			}
			if d.Trunc > 0 {
				limit = 80000 // beyond every prefix: must be cut
			}
			var n int
			switch r.Intn(10) {
			case 0, 1, 2, 3:
				n = r.Intn(40)
			case 4, 5:
				bs := []int{127, 255, 32767, 65535}
				n = bs[r.Intn(len(bs))] - 2 + r.Intn(5)
			case 6, 7:
				n = int(math.Exp(r.Float64() * math.Log(float64(limit)+1)))
			default:
				n = r.Intn(limit + 1)
			}
			if n > limit {
				n = limit
			}
			if n < 0 {
				n = 0
			}
			m[d.F] = float64(n)
		}
	}
	return m
}

// ---------------------------------------------------------------- one vector

func (tb *table) runVector(w *trace.Writer, i int, v vector, random bool, r *rand.Rand) {
	if _, ok := tb.Table[v.Ty]; !ok {
		common.Fatal("vector %d: unknown type %q", i, v.Ty)
	}
	vals, sig := tb.instantiate(v.Ty, v.M, random, r)
	t := w.Begin(map[string]interface{}{"i": i, "ty": v.Ty, "m": v.M, "rand": random}, v.Ty)
	defer t.Close()
	t.Add("Start", "ty", v.Ty, "m", v.M, "sig", "start")

	msg := tb.build(v.Ty, vals, r).Interface()

	// ---- Encode
	real, pan := safeEncode(msg)
	if pan != nil {
		t.Add("Panic", "where", "encode", "what", fmt.Sprint(pan), "sig", sig)
		t.Add("End", "sig", sig)
		return
	}
	canon := -1 // the canonical cut (the declared limit)
	cut := -1   // the cut the real encoder made, read from its length prefix
	tlen := -1  // length of the truncatable field that is on the wire
	if d, off, ok := tb.truncPrefix(v.Ty, vals); ok {
		tlen = len(vals[d.F].b)
		canon = tlen
		if tlen > d.Trunc {
			canon = d.Trunc
		}
		cut = -2
		if wd := width(d.K); len(real) >= off+wd {
			cut = 0
			for _, c := range real[off : off+wd] {
				cut = cut<<8 | int(c)
			}
		}
	}
	used := canon // whether the cut is an allowed one is for TLC to say (WireLayout!Cuts)
	if cut >= 0 && cut <= tlen {
		used = cut
	}
	expected := tb.encode(v.Ty, tb.wireNormal(v.Ty, vals, used))
	same := real != nil && bytes.Equal(real, expected)
	// the independent decoder reads the real bytes to the last byte and finds the wire-normal message
	if same {
		got, left := tb.decode(v.Ty, real)
		same = left == 0 && sameVals(got, tb.wireNormal(v.Ty, vals, used))
	}
	t.Add("Encode", "same", same, "stable", stableAfterDecoy(real), "len", len(real), "cut", cut, "sig", sig)

	// ---- Decode: the canonical v1 bytes (independent encoder) through the real decoder
	wn := tb.wireNormal(v.Ty, vals, canon)
	body := tb.encode(v.Ty, wn)
	want := tb.build(v.Ty, wn, nil)
	got, pan := safeDecode(body)
	if pan != nil {
		t.Add("Panic", "where", "decode", "what", fmt.Sprint(pan), "sig", sig)
		t.Add("End", "sig", sig)
		return
	}
	sameMsg := equalMsg(got, want)
	// consumes the body and nothing else: bytes after the body do not change the result
	tail := append(append([]byte(nil), body...), bytes.Repeat([]byte{1}, 16)...)
	got2, pan2 := safeDecode(tail)
	all := pan2 == nil && equalMsg(got2, want)
	t.Add("Decode", "same", sameMsg, "all", all, "sig", sig)
	t.Add("End", "sig", sig)
}

// runSweep: the vector's message with every ms32 field swept over 1..20000 ms and seeded random values of the
// whole 32-bit range; Encode.same / Decode.same hold only if every value was right (the first wrong one is named)
func (tb *table) runSweep(w *trace.Writer, i int, v vector, r *rand.Rand, thorough bool) {
	vals, sig := tb.instantiate(v.Ty, v.M, false, r)
	sig += ":sweep"
	t := w.Begin(map[string]interface{}{"i": i, "ty": v.Ty, "m": v.M, "sweep": true}, v.Ty)
	defer t.Close()
	t.Add("Start", "ty", v.Ty, "m", v.M, "sig", "start")
	n := 20000
	nr := 20000
	if thorough {
		n, nr = 200000, 200000
	}
	encOK, decOK, allOK := true, true, true
	bad := ""
	baseLen := 0 // the length on the wire does not depend on the duration's value
	if real, pan := safeEncode(tb.build(v.Ty, vals, nil).Interface()); pan == nil {
		baseLen = len(real)
	}
	try := func(ms uint64) {
		for _, d := range tb.Table[v.Ty] {
			if d.K == "ms32" {
				x := vals[d.F]
				x.u = ms
				vals[d.F] = x
			}
		}
		canon := -1
		if d, _, ok := tb.truncPrefix(v.Ty, vals); ok {
			canon = len(vals[d.F].b)
			if canon > d.Trunc {
				canon = d.Trunc
			}
		}
		wn := tb.wireNormal(v.Ty, vals, canon)
		expected := tb.encode(v.Ty, wn)
		real, pan := safeEncode(tb.build(v.Ty, vals, nil).Interface())
		if pan != nil || !bytes.Equal(real, expected) {
			if encOK {
				bad = fmt.Sprintf("encode %d ms", ms)
			}
			encOK = false
		}
		got, pan := safeDecode(expected)
		if pan != nil || !equalMsg(got, tb.build(v.Ty, wn, nil)) {
			if decOK && bad == "" {
				bad = fmt.Sprintf("decode %d ms", ms)
			}
			decOK, allOK = false, false
		}
	}
	for ms := uint64(1); ms <= uint64(n) && encOK && decOK; ms++ {
		try(ms)
	}
	for j := 0; j < nr && encOK && decOK; j++ {
		try(uint64(r.Int63n(1 << 32)))
	}
	t.Add("Encode", "same", encOK, "stable", true, "len", baseLen, "cut", -1, "detail", bad, "sig", sig)
	t.Add("Decode", "same", decOK, "all", allOK, "detail", bad, "sig", sig)
	t.Add("End", "sig", sig)
}

// ---------------------------------------------------------------- the registration round

// One trace per type (an unregistered type must not hide the others behind one rejection) plus a
// summary trace that lists the types looked up (TLC compares the list with ClientSends + ClientExpects).
func (tb *table) runRegistered(w *trace.Writer, i int) {
	names := append(append([]string(nil), tb.Sends...), tb.Expects...)
	sort.Strings(names)
	for _, name := range names {
		gt, ok := goType[name]
		if !ok {
			common.Fatal("no Go type for %q", name)
		}
		aware, ok := reflect.New(gt).Elem().Interface().(message.MessageTypeAware)
		if !ok {
			common.Fatal("%s is not MessageTypeAware", name)
		}
		t := w.Begin(map[string]interface{}{"i": i, "table": true, "lookup": name}, "registration")
		t.Add("Start", "ty", "*", "m", map[string]interface{}{}, "sig", "start")
		tc := aware.GetTypeCode()
		c := codec.GetCodecManager().GetCodec(codec.CodecTypeSeata, tc)
		found := c != nil && !reflect.ValueOf(c).IsNil()
		code := found && c.GetMessageType() == tc
		t.Add("Registered", "mt", name, "found", found, "code", code, "tc", int(tc), "sig", "reg:"+name)
		t.Add("End", "sig", "reg:"+name)
		t.Close()
	}
	t := w.Begin(map[string]interface{}{"i": i, "table": true}, "registration")
	t.Add("Start", "ty", "*", "m", map[string]interface{}{}, "sig", "start")
	t.Add("Round", "types", names, "sig", "round")
	t.Add("End", "sig", "round")
	t.Close()
}

// ----------------------------------------------------------------

func main() {
	o := common.Parse()
	codec.Init()
	w, err := trace.NewWriter(o.Out)
	if err != nil {
		common.Fatal("%v", err)
	}
	if o.Scenarios == "" {
		common.Fatal("-scenarios required (the layout table is exported by TLC)")
	}
	raws, err := trace.ReadScenarios(o.Scenarios)
	if err != nil {
		common.Fatal("%v", err)
	}
	// the table is one of the lines
	var tb *table
	for _, raw := range raws {
		if bytes.HasPrefix(raw, []byte(`{"table"`)) || bytes.Contains(raw, []byte(`"table":{`)) {
			tb = &table{}
			if err := json.Unmarshal(raw, tb); err != nil {
				common.Fatal("table: %v", err)
			}
		}
	}
	if tb == nil || len(tb.Table) == 0 || len(tb.Codes) != len(tb.Table) {
		common.Fatal("no layout table among the scenarios")
	}
	idx := 0
	firstVec := map[string]vector{}
	for _, raw := range raws {
		i := idx
		idx++
		if !bytes.Contains(raw, []byte(`"table":{`)) {
			var v0 vector
			if json.Unmarshal(raw, &v0) == nil {
				if _, seen := firstVec[v0.Ty]; !seen {
					firstVec[v0.Ty] = v0
				}
			}
		}
		if !o.Want(i) {
			continue
		}
		if bytes.Contains(raw, []byte(`"table":{`)) {
			tb.runRegistered(w, i)
			continue
		}
		var v vector
		if err := json.Unmarshal(raw, &v); err != nil {
			common.Fatal("scenario %d: %v", i, err)
		}
		if _, seen := firstVec[v.Ty]; !seen {
			firstVec[v.Ty] = v
		}
		tb.runVector(w, i, v, false, o.Rand(int64(i)))
	}
	// the data dimension of fixed-width numeric fields that are computed, not copied (durations): one vector per
	// type, its Encode/Decode events speak for a whole sweep of values
	sweepTypes := make([]string, 0)
	for ty, ds := range tb.Table {
		for _, d := range ds {
			if d.K == "ms32" {
				sweepTypes = append(sweepTypes, ty)
				break
			}
		}
	}
	sort.Strings(sweepTypes)
	for _, ty := range sweepTypes {
		i := idx
		idx++
		if !o.Want(i) {
			continue
		}
		if v, ok := firstVec[ty]; ok {
			tb.runSweep(w, i, v, o.Rand(int64(2_000_000+i)), o.Thorough())
		}
	}
	// seeded random vectors beyond TLC's classes
	per := 40
	if o.Thorough() {
		per = 400
	}
	types := make([]string, 0, len(tb.Table))
	for ty := range tb.Table {
		types = append(types, ty)
	}
	sort.Strings(types)
	for j := 0; j < per; j++ {
		for _, ty := range types {
			i := idx
			idx++
			if !o.Want(i) {
				continue
			}
			r := o.Rand(int64(1_000_000 + i))
			tb.runVector(w, i, vector{Ty: ty, M: tb.randomVector(ty, r)}, true, r)
		}
	}
	if err := w.Close(); err != nil {
		common.Fatal("%v", err)
	}
	fmt.Printf("DRIVER-OK traces=%d scenarios=%d\n", w.Count(), idx)
}
