package main

import (
	"encoding/json"
	"fmt"
	"os"
	"regexp"
	"strconv"
	"strings"
	"sync"
	"sync/atomic"
	"time"

	getty "github.com/apache/dubbo-getty"

	"seata.apache.org/seata-go/pkg/protocol/message"
	sgetty "seata.apache.org/seata-go/pkg/remoting/getty"

	"verif/harness/common"
	"verif/harness/tctcp"
	"verif/harness/trace"
)

// lab is the child's laboratory: one stand-in, one client (process-global), the sessions the client opened.
type lab struct {
	em  *emitter
	o   *common.Opts
	tb  *tctcp.Table
	srv *tctcp.Server

	smu      sync.Mutex
	sessions []sessRec

	// onReq is the mode's script for client requests and heartbeats (see tctcp.Server.OnRequest)
	onReq atomic.Value // func(c *tctcp.Conn, r tctcp.Record) bool

	probeN atomic.Int64

	items  []childItem
	stMu   sync.Mutex
	status map[int]int // item key -> 0 untouched | 1 has events | 2 ended
}

func (l *lab) mark(k, st int) {
	l.stMu.Lock()
	if l.status[k] < st {
		l.status[k] = st
	}
	l.stMu.Unlock()
}

func (l *lab) newScen(it childItem) *scen { return &scen{em: l.em, k: it.K, i: it.I, l: l} }

// behaviour ends the child because of something the client did (or failed to do) after it had connected and
// announced itself: that is an observation, not an infrastructure failure.  Every scenario of the child that
// has not ended gets its opening event (if it has none yet), the event SetupFailed - which no specification
// accepts - and its end.
func (l *lab) behaviour(code, format string, a ...interface{}) {
	msg := fmt.Sprintf(format, a...)
	for _, it := range l.items {
		l.stMu.Lock()
		st := l.status[it.K]
		l.stMu.Unlock()
		if st == 2 {
			continue
		}
		s := &scen{em: l.em, k: it.K, i: it.I}
		if st == 0 {
			l.firstEvent(s, it)
		}
		s.Add("SetupFailed", "what", msg, "sig", "setup/"+l.o.Mode+"/"+code)
		s.Add("End", "sig", "end")
		s.End(l.o.Mode + " setup failed")
	}
	os.Exit(0)
}

// firstEvent writes the event that binds the initial state of the scenario's trace specification
func (l *lab) firstEvent(s *scen, it childItem) {
	switch l.o.Mode {
	case "frame":
		var sc frameScenario
		json.Unmarshal(it.Sc, &sc)
		shapes := make([]interface{}, 0, len(sc.Frames))
		for _, sh := range sc.Frames {
			shapes = append(shapes, map[string]int{"hm": sh.Hm, "body": sh.Body})
		}
		s.Add("Start", "frames", shapes, "junk", sc.Junk, "sig", "start")
	case "wire":
		var v vector
		json.Unmarshal(it.Sc, &v)
		s.Add("Start", "ty", v.Ty, "m", v.M, "sig", "start")
	case "rpc":
		var sc rpcScenario
		json.Unmarshal(it.Sc, &sc)
		s.Add("Start", "cn", sc.Cn, "sig", "start")
	case "inbound":
		var sc inScenario
		json.Unmarshal(it.Sc, &sc)
		s.Add("Start", "cn", len(sc.Reqs), "sig", "start")
	case "reconnect":
		s.Add("Init", "part", "rc", "resources", []string{"at", "tcc"}, "by", false, "tm0", false, "rm0", []string{},
			"tmb", false, "rmb", []string{}, "sig", "init")
	}
}

type sessRec struct {
	s     getty.Session
	local string
}

func newLab(em *emitter, o *common.Opts, its []childItem) *lab {
	raws, err := trace.ReadScenarios(o.Scenarios)
	if err != nil {
		em.fatal("%v", err)
	}
	tb, err := tctcp.LoadTable(raws)
	if err != nil {
		em.fatal("%v", err)
	}
	srv, err := tctcp.NewServer(tb)
	if err != nil {
		em.fatal("listen: %v", err)
	}
	l := &lab{em: em, o: o, tb: tb, srv: srv, items: its, status: map[int]int{}}
	srv.OnRequest = func(c *tctcp.Conn, r tctcp.Record) bool {
		if r.Ty == "GlobalStatusRequest" && strings.HasPrefix(string(r.Vals["xid"].B), "probe/") {
			c.Reply(r.Frame.ID, "GlobalStatusResponse", tctcp.Vals{"resultCode": tctcp.N(1), "globalStatus": tctcp.N(1)})
			return true
		}
		if f, ok := l.onReq.Load().(func(c *tctcp.Conn, r tctcp.Record) bool); ok && f != nil {
			return f(c, r)
		}
		return false
	}
	sgetty.RegisterSessionOpenHook(func(s getty.Session) {
		l.smu.Lock()
		l.sessions = append(l.sessions, sessRec{s: s, local: s.LocalAddr()})
		l.smu.Unlock()
	})
	cfg := tctcp.DefaultClientConfig(srv.Addr)
	switch o.Mode {
	case "frame", "wire", "rpc", "inbound":
		// heartbeats are produced by the real OnCron, but when the scenario says so, not by the timer
		cfg.CronPeriod = "3600s"
	case "reconnect":
		cfg.CronPeriod = "100ms" // the real timer: heartbeats travel while the scenarios run
	}
	cfg.LoadBalance = *policyF
	tctcp.InitClient(cfg)
	if srv.WaitConn(1, 10*time.Second) == nil {
		em.fatal("the client never connected to %s", srv.Addr)
	}
	if _, ok := srv.WaitFor(0, 5*time.Second, func(r tctcp.Record) bool { return r.Dir == "in" && r.Ty == "RegisterTMRequest" }); !ok {
		l.behaviour("no-registertm", "the client connected but no RegisterTM arrived on the first connection")
	}
	if !waitUntil(func() bool { return l.nSessions() >= 1 }, 5*time.Second) {
		l.behaviour("no-open-hook", "the session-open hooks were not called for the first connection")
	}
	return l
}

func (l *lab) setScript(f func(c *tctcp.Conn, r tctcp.Record) bool) { l.onReq.Store(f) }

func (l *lab) nSessions() int { l.smu.Lock(); defer l.smu.Unlock(); return len(l.sessions) }

// sessionOf finds the client session that is the other end of connection c
func (l *lab) sessionOf(c *tctcp.Conn) getty.Session {
	l.smu.Lock()
	defer l.smu.Unlock()
	for k := len(l.sessions) - 1; k >= 0; k-- {
		if l.sessions[k].local == c.Peer() {
			return l.sessions[k].s
		}
	}
	return nil
}

var pkgsRe = regexp.MustCompile(`Read Pkgs: (\d+)`)

// readPkgs is the real session's count of packages whose OnMessage has returned (-1: the session is gone).
func readPkgs(s getty.Session) int {
	if s == nil {
		return -1
	}
	m := pkgsRe.FindStringSubmatch(s.Stat())
	if m == nil {
		return -1
	}
	n, _ := strconv.Atoi(m[1])
	return n
}

// liveConn returns the one live connection and the client session at its other end, waiting for getty's
// reconnect (and the announcements on the new session) when there is none.  When sessions die in quick
// succession getty's reconnect loops can leave more than one connection open: the coordinator keeps the
// newest and drops the others (getty does not replace them: the pool is full).
func (l *lab) liveConn(d time.Duration) (*tctcp.Conn, getty.Session, bool) {
	end := time.Now().Add(d)
	for {
		var live []*tctcp.Conn
		var sess []getty.Session
		for k := l.srv.NConns(); k >= 1 && k > l.srv.NConns()-64; k-- {
			c := l.srv.ConnAt(k)
			if c == nil || c.Closed() {
				continue
			}
			if s := l.sessionOf(c); s != nil && !s.IsClosed() {
				live = append(live, c)
				sess = append(sess, s)
			}
		}
		if len(live) > 1 {
			for _, c := range live[1:] {
				c.RST()
			}
			for _, s := range sess[1:] {
				s := s
				waitUntil(func() bool { return s.IsClosed() }, time.Second)
			}
			continue
		}
		if len(live) == 1 {
			return live[0], sess[0], true
		}
		if time.Now().After(end) {
			return nil, nil, false
		}
		time.Sleep(time.Millisecond)
	}
}

// probe sends a fresh request through the public API and reports whether it was served and over which
// connection it travelled.
func (l *lab) probe(d time.Duration) (ok bool, conn int) {
	name := fmt.Sprintf("probe/%d", l.probeN.Add(1))
	pos := l.srv.Len()
	ch := make(chan bool, 1)
	go func() {
		defer func() {
			if recover() != nil {
				ch <- false
			}
		}()
		resp, err := sgetty.GetGettyRemotingClient().SendSyncRequest(message.GlobalStatusRequest{
			AbstractGlobalEndRequest: message.AbstractGlobalEndRequest{Xid: name}})
		_, is := resp.(message.GlobalStatusResponse)
		ch <- err == nil && is
	}()
	select {
	case ok = <-ch:
	case <-time.After(d):
	}
	for _, r := range l.srv.Since(pos) {
		if r.Dir == "in" && r.Ty == "GlobalStatusRequest" && string(r.Vals["xid"].B) == name {
			conn = r.Conn
		}
	}
	return
}

// state describes connections and sessions (diagnostics of a missing reconnect)
func (l *lab) state() string {
	var b strings.Builder
	n := l.srv.NConns()
	fmt.Fprintf(&b, "conns=%d:", n)
	for k := max(1, n-5); k <= n; k++ {
		c := l.srv.ConnAt(k)
		s := l.sessionOf(c)
		fmt.Fprintf(&b, " [#%d closed=%v session=%v", k, c.Closed(), s != nil)
		if s != nil {
			fmt.Fprintf(&b, " sclosed=%v", s.IsClosed())
		}
		b.WriteString("]")
	}
	return b.String()
}

func waitUntil(f func() bool, d time.Duration) bool {
	end := time.Now().Add(d)
	for time.Now().Before(end) {
		if f() {
			return true
		}
		time.Sleep(200 * time.Microsecond)
	}
	return f()
}

func waitCh(ch <-chan struct{}, d time.Duration) bool {
	select {
	case <-ch:
		return true
	default:
	}
	select {
	case <-ch:
		return true
	case <-time.After(d):
		return false
	}
}
