package main

import (
	"bytes"
	"encoding/binary"
	"encoding/json"
	"fmt"
	"math/rand"
	"os"
	"sort"
	"strings"
	"sync"
	"time"

	"seata.apache.org/seata-go/pkg/protocol/branch"
	sgetty "seata.apache.org/seata-go/pkg/remoting/getty"
	"seata.apache.org/seata-go/pkg/rm"

	"verif/harness/common"
	"verif/harness/rmstub"
	"verif/harness/tctcp"
)

// ------------------------------------------------------------------------------------------- C13 over a socket

type shape struct {
	Hm   int `json:"hm"`
	Body int `json:"body"`
}

type frameScenario struct {
	Frames []shape `json:"frames"`
	Junk   int     `json:"junk"`
	Cuts   []int   `json:"cuts"`
	Rand   bool    `json:"rand,omitempty"`
}

func planFrame(o *common.Opts, raws []json.RawMessage) []item {
	var items []item
	idx := 0
	for _, raw := range raws {
		i := idx
		idx++
		if !bytes.Contains(raw, []byte(`"frames"`)) || !o.Want(i) {
			continue
		}
		var sc frameScenario
		if err := json.Unmarshal(raw, &sc); err != nil {
			common.Fatal("scenario %d: %v", i, err)
		}
		tiny := false
		for _, f := range sc.Frames {
			if f.Body > 0 && f.Body < 6 {
				tiny = true
			}
		}
		if tiny {
			// a frame whose body is too short to be a message has no effect the client could be observed by over a
			// socket (no pending call completes, no request is dispatched): those scenarios are the in-process
			// leg's (cmd/frame), which sees what Read returns
			continue
		}
		items = append(items, item{I: i, Raw: raw, Info: map[string]interface{}{"i": i, "sc": sc}})
	}
	// random long streams: sizes beyond TLC's shapes (several TCP segments, beyond getty's 4 KiB read buffer),
	// short junk, more cuts
	nrand := 300
	for j := 0; j < nrand; j++ {
		i := idx
		idx++
		if !o.Want(i) {
			continue
		}
		r := o.Rand(int64(2_000_000 + j))
		sc := frameScenario{Rand: true}
		nf := 1 + r.Intn(6)
		for f := 0; f < nf; f++ {
			s := shape{}
			if r.Intn(3) > 0 {
				s.Hm = 4 + r.Intn(60)
			}
			switch r.Intn(8) {
			case 0:
				s.Body = 0
			case 1:
				s.Body = 3000 + r.Intn(6000)
			case 2:
				if j%10 == 0 {
					s.Body = 20000 + r.Intn(60000)
				} else {
					s.Body = 4 + r.Intn(40)
				}
			default:
				s.Body = 4 + r.Intn(300)
			}
			sc.Frames = append(sc.Frames, s)
		}
		switch r.Intn(6) {
		case 0:
			sc.Junk = 1 + r.Intn(15)
		case 1:
			sc.Junk = 16 + r.Intn(30)
		}
		total := sc.Junk
		for _, s := range sc.Frames {
			total += 16 + s.Hm + s.Body
		}
		rem := total
		for rem > 0 && len(sc.Cuts) < 12 {
			c := 1 + r.Intn(rem)
			if r.Intn(2) == 0 && rem > 20 {
				c = 1 + r.Intn(20)
			}
			sc.Cuts = append(sc.Cuts, c)
			rem -= c
		}
		if rem > 0 {
			sc.Cuts = append(sc.Cuts, rem)
		}
		raw, _ := json.Marshal(sc)
		items = append(items, item{I: i, Raw: raw, Info: map[string]interface{}{"i": i, "sc": sc}})
	}
	return items
}

func text(r *rand.Rand, n int) []byte {
	const al = "abcdefghijklmnopqrstuvwxyz0123456789:-._/"
	b := make([]byte, n)
	for i := range b {
		b[i] = al[r.Intn(len(al))]
	}
	return b
}

// head map of exactly n bytes (the shapes of Frame_MC: 0, 4 "" -> "", 5, 9; generic: one entry)
func headMap(n int, r *rand.Rand) []tctcp.KV {
	switch n {
	case 0:
		return nil
	case 4:
		return []tctcp.KV{{K: "", V: ""}}
	case 5:
		if r.Intn(2) == 0 {
			return []tctcp.KV{{K: "", V: "x"}}
		}
		return []tctcp.KV{{K: "k", V: ""}}
	case 9:
		if r.Intn(2) == 0 {
			return []tctcp.KV{{K: "k", V: "vvvv"}}
		}
		return []tctcp.KV{{K: "key", V: "vv"}}
	}
	if n < 4 {
		panic("bad head map length")
	}
	if n >= 12 && r.Intn(2) == 0 {
		// two entries: (2+1+2+a) + (2+k+2+0) = n
		a := r.Intn(n - 8)
		return []tctcp.KV{{K: "a", V: string(text(r, a))}, {K: string(text(r, n-9-a)), V: ""}}
	}
	a := r.Intn(n - 3)
	return []tctcp.KV{{K: string(text(r, a)), V: string(text(r, n-4-a))}}
}

// one frame the stand-in will send
type plannedFrame struct {
	kind   string // resp | hb | req
	ty     string // body type by the table ("" for heartbeats)
	vals   tctcp.Vals
	reqTy  string // resp: the request the client has pending
	marker string
	id     int32
	hbType byte
	bytes  []byte
	// observation
	done   chan callResult                               // resp: the caller's return
	expect func(time.Duration) (tctcp.Record, bool) // req: the client's response over the socket
	ready  func() bool
}

type callResult struct {
	resp interface{}
	err  error
}

const (
	rcFailed  = 0
	rcSuccess = 1
)

// a message coordinator -> client whose body is exactly n bytes long
func (l *lab) planBody(n int, r *rand.Rand, marker string) (pf plannedFrame, ok bool) {
	type cand struct {
		kind, ty string
		mk       func() tctcp.Vals
	}
	var cs []cand
	S := func(k int) tctcp.Val { return tctcp.Val{B: text(r, k)} }
	add := func(kind, ty string, mk func() tctcp.Vals) { cs = append(cs, cand{kind, ty, mk}) }
	fail := func(m int, rest tctcp.Vals) tctcp.Vals {
		v := tctcp.Vals{"resultCode": tctcp.N(rcFailed), "msg": S(m), "transactionErrorCode": tctcp.N(uint64(r.Intn(20)))}
		for k, x := range rest {
			v[k] = x
		}
		return v
	}
	succ := func(rest tctcp.Vals) tctcp.Vals {
		v := tctcp.Vals{"resultCode": tctcp.N(rcSuccess), "transactionErrorCode": tctcp.N(0)}
		for k, x := range rest {
			v[k] = x
		}
		return v
	}
	if n == 4 {
		add("resp", "BranchReportResponse", func() tctcp.Vals { return succ(nil) })
	}
	if n >= 5 && n-5 <= 127 {
		add("resp", "BranchReportResponse", func() tctcp.Vals { return fail(n-5, nil) })
	}
	if n == 6 {
		add("resp", "GlobalLockQueryResponse", func() tctcp.Vals { return succ(tctcp.Vals{"lockable": tctcp.Bo(r.Intn(2) == 0)}) })
	}
	if n >= 7 && n-7 <= 127 {
		add("resp", "GlobalLockQueryResponse", func() tctcp.Vals { return fail(n-7, tctcp.Vals{"lockable": tctcp.Bo(false)}) })
	}
	for _, ty := range []string{"GlobalCommitResponse", "GlobalRollbackResponse", "GlobalStatusResponse", "GlobalReportResponse"} {
		if n == 5 {
			add("resp", ty, func() tctcp.Vals { return succ(tctcp.Vals{"globalStatus": tctcp.N(uint64(r.Intn(16)))}) })
		}
		if n >= 7 && n-7 <= 32767 {
			add("resp", ty, func() tctcp.Vals { return fail(n-7, tctcp.Vals{"globalStatus": tctcp.N(uint64(r.Intn(16)))}) })
		}
	}
	if n >= 5 && n-5 <= 65535 {
		add("resp", "RegisterRMResponse", func() tctcp.Vals {
			return tctcp.Vals{"identified": tctcp.Bo(r.Intn(2) == 0), "version": S(n - 5)}
		})
		add("resp", "RegisterTMResponse", func() tctcp.Vals {
			return tctcp.Vals{"identified": tctcp.Bo(r.Intn(2) == 0), "version": S(n - 5)}
		})
	}
	if n == 12 {
		add("resp", "BranchRegisterResponse", func() tctcp.Vals { return succ(tctcp.Vals{"branchId": tctcp.N(r.Uint64())}) })
	}
	if n >= 14 && n-14 <= 32767 {
		add("resp", "BranchRegisterResponse", func() tctcp.Vals { return fail(n-14, tctcp.Vals{"branchId": tctcp.N(r.Uint64())}) })
	}
	if n >= 8 && n-8 <= 60000 {
		add("resp", "GlobalBeginResponse", func() tctcp.Vals {
			x := r.Intn(n - 8 + 1)
			return succ(tctcp.Vals{"xid": S(x), "extraData": S(n - 8 - x)})
		})
	}
	if n >= 19+len(marker) && n-19 <= 90000 {
		for _, ty := range []string{"BranchCommitRequest", "BranchRollbackRequest"} {
			add("req", ty, func() tctcp.Vals {
				free := n - 19 - len(marker)
				a := r.Intn(min(free, 65535) + 1) // resourceId has a 16-bit length prefix
				return tctcp.Vals{"xid": tctcp.S(marker), "branchId": tctcp.N(uint64(r.Int63())), "branchType": tctcp.N(uint64(r.Intn(2))),
					"resourceId": S(a), "applicationData": S(free - a)}
			})
		}
	}
	if len(cs) == 0 {
		return pf, false
	}
	c := cs[r.Intn(len(cs))]
	pf = plannedFrame{kind: c.kind, ty: c.ty, vals: tctcp.Norm(l.tb.WireNormal(c.ty, c.mk(), -1)), marker: marker}
	if c.kind == "resp" {
		pf.reqTy = strings.TrimSuffix(c.ty, "Response") + "Request"
	}
	enc := l.tb.Encode(pf.ty, pf.vals)
	if got := len(enc); got != n {
		panic(fmt.Sprintf("planBody(%d): %s is %d bytes", n, pf.ty, got))
	}
	// the planned message must be a well-formed one: the table interpreter reads it back whole
	if back, left := l.tb.Decode(pf.ty, enc); left != 0 || !tctcp.SameVals(tctcp.Norm(back), pf.vals) {
		panic(fmt.Sprintf("planBody(%d): %s does not decode to itself (a field beyond its prefix?)", n, pf.ty))
	}
	return pf, true
}

// the request whose response the frame will be; the marker travels in a field the stand-in can see
func (l *lab) requestFor(reqTy, marker string) interface{} {
	v := tctcp.Vals{}
	for _, d := range l.tb.Table[reqTy] {
		switch d.F {
		case "transactionName", "xid":
			v[d.F] = tctcp.S(marker)
		case "applicationId":
			v[d.F] = tctcp.S(marker)
		case "timeout":
			v[d.F] = tctcp.N(60000)
		case "resourceId", "resourceIds":
			v[d.F] = tctcp.S("frame-res")
		case "lockKey":
			v[d.F] = tctcp.S("t:1")
		}
	}
	st, err := l.tb.ToStruct(reqTy, v)
	if err != nil {
		l.em.fatal("%v", err)
	}
	return st
}

func markerOf(r tctcp.Record) string {
	for _, f := range []string{"transactionName", "xid", "applicationId"} {
		if v, ok := r.Vals[f]; ok && len(v.B) > 0 {
			return string(v.B)
		}
	}
	return ""
}

type stubCall struct {
	mgr branch.BranchType
	op  string
	res rm.BranchResource
}

type frameLab struct {
	*lab
	mu      sync.Mutex
	held    map[string]chan tctcp.Record // marker -> the request arrived
	holdHB  bool
	hbCh    chan tctcp.Record
	stubs   sync.Map // xid marker -> stubCall
	hbTotal int
	phases  []string
}

func (l *lab) runFrames(its []childItem) {
	fl := &frameLab{lab: l, held: map[string]chan tctcp.Record{}, hbCh: make(chan tctcp.Record, 16)}
	rmstub.Install(func(mgr branch.BranchType, op string, res rm.BranchResource) (branch.BranchStatus, error) {
		fl.stubs.Store(res.Xid, stubCall{mgr, op, res})
		if op == "commit" {
			return branch.BranchStatusPhasetwoCommitted, nil
		}
		return branch.BranchStatusPhasetwoRollbacked, nil
	})
	l.setScript(func(c *tctcp.Conn, r tctcp.Record) bool {
		if r.Frame.Type == tctcp.TypeHeartbeatReq {
			fl.mu.Lock()
			h := fl.holdHB
			fl.mu.Unlock()
			if h {
				fl.hbCh <- r
				return true
			}
			return false
		}
		fl.mu.Lock()
		ch := fl.held[markerOf(r)]
		fl.mu.Unlock()
		if ch != nil {
			ch <- r
			return true // held: the scenario's frame is the reply
		}
		return false
	})
	// Heartbeat ids come from the listener's own counter and request ids from the client's: keep the request
	// counter ahead of every heartbeat this child will produce, so that a heartbeat never meets a pending
	// request with the same id (that collision is C14's finding F-C14-3, not this leg's subject).
	nhb := 16
	var scs []frameScenario
	for _, it := range its {
		var sc frameScenario
		if err := json.Unmarshal(it.Sc, &sc); err != nil {
			l.em.fatal("scenario %d: %v", it.I, err)
		}
		scs = append(scs, sc)
		for _, s := range sc.Frames {
			if s.Body == 0 {
				nhb++
			}
		}
	}
	for k := 0; k < nhb; k++ {
		if ok, _ := l.probe(3 * time.Second); !ok {
			l.behaviour("warmup", "warm-up request %d was not served", k)
		}
	}
	t0 := time.Now()
	for k, it := range its {
		t1 := time.Now()
		fl.runFrame(l.newScen(it), scs[k], it.I)
		if d := time.Since(t1); d > 100*time.Millisecond && os.Getenv("TCP_DEBUG") != "" {
			fmt.Fprintf(os.Stderr, "slow scenario %d: %v %+v phases %v\n", it.I, d, scs[k], fl.phases)
		}
	}
	l.em.line(childLine{Stat: fmt.Sprintf("[frame n=%d conns=%d %.1fs]", len(its), l.srv.NConns(), time.Since(t0).Seconds())})
}

func (fl *frameLab) runFrame(s *scen, sc frameScenario, idx int) {
	l := fl.lab
	r := rand.New(rand.NewSource(l.o.Seed*1000003 + int64(idx)))
	tph := time.Now()
	fl.phases = nil
	ph := func(n string) {
		fl.phases = append(fl.phases, fmt.Sprintf("%s=%dms", n, time.Since(tph).Milliseconds()))
		tph = time.Now()
	}
	conn, sess, ok := l.liveConn(10 * time.Second)
	if !ok {
		l.behaviour("no-connection", "scenario %d: no live connection (the client did not reconnect within 10 s) %s", idx, l.state())
	}
	ph("live")
	shapes := make([]interface{}, 0, len(sc.Frames))
	for _, sh := range sc.Frames {
		shapes = append(shapes, map[string]int{"hm": sh.Hm, "body": sh.Body})
	}
	s.Add("Start", "frames", shapes, "junk", sc.Junk, "sig", "start")
	class := fmt.Sprintf("tcp frames=%d,junk=%d,cuts=%d", len(sc.Frames), sc.Junk, len(sc.Cuts))

	// 1. make the client expect every frame
	var pfs []*plannedFrame
	kinds := map[string]bool{}
	for k, sh := range sc.Frames {
		marker := fmt.Sprintf("f/%d/%d", idx, k+1)
		pf := &plannedFrame{}
		if sh.Body == 0 {
			pf.kind = "hb"
			fl.mu.Lock()
			fl.holdHB = true
			fl.mu.Unlock()
			sgetty.GetGettyClientHandlerInstance().OnCron(sess)
			select {
			case rec := <-fl.hbCh:
				pf.id = rec.Frame.ID
			case <-time.After(3 * time.Second):
				s.Add("NotSent", "what", "heartbeat", "sig", "notsent/hb")
				s.End(class)
				return
			}
			fl.mu.Lock()
			fl.holdHB = false
			fl.mu.Unlock()
			pf.hbType = tctcp.TypeHeartbeatResp
			if r.Intn(3) == 0 {
				pf.hbType = tctcp.TypeHeartbeatReq // a ping of the coordinator with the same id has the same effect
			}
			pf.bytes = tctcp.EncodeFrame(tctcp.Frame{ID: pf.id, Type: pf.hbType, Codec: tctcp.CodecSeata, Head: headMap(sh.Hm, r)})
		} else {
			p, ok := l.planBody(sh.Body, r, marker)
			if !ok {
				l.em.fatal("scenario %d: no message with a body of %d bytes", idx, sh.Body)
			}
			*pf = p
			switch pf.kind {
			case "resp":
				ch := make(chan tctcp.Record, 1)
				fl.mu.Lock()
				fl.held[marker] = ch
				fl.mu.Unlock()
				pf.done = make(chan callResult, 1)
				req := l.requestFor(pf.reqTy, marker)
				go func(pf *plannedFrame) {
					defer func() {
						if p := recover(); p != nil {
							pf.done <- callResult{err: fmt.Errorf("panic: %v", p)}
						}
					}()
					resp, err := sgetty.GetGettyRemotingClient().SendSyncRequest(req)
					pf.done <- callResult{resp, err}
				}(pf)
				select {
				case rec := <-ch:
					pf.id = rec.Frame.ID
				case <-time.After(3 * time.Second):
					s.Add("NotSent", "what", pf.reqTy, "sig", "notsent/"+pf.reqTy)
					s.End(class)
					return
				}
				fl.mu.Lock()
				delete(fl.held, marker)
				fl.mu.Unlock()
				pf.bytes = tctcp.EncodeFrame(tctcp.Frame{ID: pf.id, Type: tctcp.TypeResponse, Codec: tctcp.CodecSeata,
					Head: headMap(sh.Hm, r), Body: l.tb.Encode(pf.ty, pf.vals)})
			case "req":
				pf.id = l.srv.NextID()
				pf.expect, pf.ready = l.srv.Expect(pf.id)
				pf.bytes = tctcp.EncodeFrame(tctcp.Frame{ID: pf.id, Type: tctcp.TypeRequestSync, Codec: tctcp.CodecSeata,
					Head: headMap(sh.Hm, r), Body: l.tb.Encode(pf.ty, pf.vals)})
			}
		}
		if len(pf.bytes) != 16+sh.Hm+sh.Body {
			panic(fmt.Sprintf("frame %d is %d bytes, shape says %d", k, len(pf.bytes), 16+sh.Hm+sh.Body))
		}
		kinds[pf.kind] = true
		pfs = append(pfs, pf)
	}

	ph("setup")
	// 2. the stream and its junk
	var stream []byte
	for _, pf := range pfs {
		stream = append(stream, pf.bytes...)
	}
	junkKind := "none"
	if sc.Junk > 0 {
		junk := make([]byte, sc.Junk)
		for k := range junk {
			junk[k] = byte(r.Intn(256))
		}
		if junk[0] == 0xda {
			junk[0] = 0x11
		}
		junkKind = "plain"
		if sc.Junk < 16 {
			junkKind = "short"
		} else if r.Intn(2) == 0 {
			// junk that starts with the magic but whose header lengths are inconsistent
			junkKind = "badhead"
			total, head := uint32(len(junk)), uint16(0)
			switch r.Intn(3) {
			case 0:
				head = uint16(r.Intn(16))
			case 1:
				total = 16
				head = uint16(17 + r.Intn(60000))
			case 2:
				total = uint32(r.Intn(16))
				head = 16
			}
			junk[0], junk[1], junk[2] = 0xda, 0xda, 1
			binary.BigEndian.PutUint32(junk[3:], total)
			binary.BigEndian.PutUint16(junk[7:], head)
			junk[9] = 0
		}
		stream = append(stream, junk...)
	}
	// the session counts a package when its dispatch has returned, which can be a moment after the caller of the
	// previous scenario's last request got its answer (the task-pool goroutine is still on its way to the counter):
	// take the base only once the counter has stood still for a while, or a straggler is counted as ours
	before := readPkgs(sess)
	for still := 0; still < 5 && before >= 0; {
		time.Sleep(8 * time.Millisecond)
		if n := readPkgs(sess); n == before {
			still++
		} else {
			before, still = n, 0
		}
	}

	// 3. write it, chunk by chunk
	written, werr := conn.WriteChunks(stream, sc.Cuts, func(int) time.Duration { return time.Duration(1000+r.Intn(2000)) * time.Microsecond })
	for _, c := range written {
		s.Add("Write", "c", c, "sig", "write")
	}
	var ks []string
	for k := range kinds {
		ks = append(ks, k)
	}
	sort.Strings(ks)
	sig := fmt.Sprintf("frames=%s,junk=%s,chunks=%d", strings.Join(ks, "+"), junkKind, min(len(written), 4))
	if werr != nil {
		// the client closed the connection while the stand-in was still writing
		sig += ",writeerr"
	}

	ph("write")
	// 4. what did the client's receive loop deliver?
	delivered := []int{}
	eq := true
	patience := 2 * time.Second
	// once the client has closed the session nothing more is dispatched (getty's tasks drop what they hold)
	var goneAt time.Time
	over := func() bool {
		if !(conn.Closed() || sess.IsClosed()) {
			return false
		}
		if goneAt.IsZero() {
			goneAt = time.Now()
		}
		return time.Since(goneAt) > 40*time.Millisecond
	}
	recvOr := func(ready func() bool, d time.Duration) bool {
		end := time.Now().Add(d)
		for {
			if ready() {
				return true
			}
			if over() {
				return ready()
			}
			if time.Now().After(end) {
				return false
			}
			time.Sleep(200 * time.Microsecond)
		}
	}
	for k, pf := range pfs {
		got := false
		switch pf.kind {
		case "resp":
			if recvOr(func() bool { return len(pf.done) > 0 }, patience) {
				res := <-pf.done
				got = true
				ty, vals, ok := l.tb.FromStruct(res.resp)
				if res.err != nil || !ok || ty != pf.ty || !tctcp.SameVals(tctcp.Norm(vals), pf.vals) {
					eq = false
				}
			}
		case "hb":
			// a heartbeat leaves no trace of its own: see the package counter below
			continue
		case "req":
			var rec tctcp.Record
			ok := recvOr(func() bool { return pf.ready() }, patience)
			if ok {
				rec, ok = pf.expect(time.Millisecond)
			}
			got = ok
			if ok {
				want := strings.TrimSuffix(pf.ty, "Request") + "Response"
				call, seen := fl.stubs.Load(pf.marker)
				if rec.Ty != want || rec.Left != 0 || string(rec.Vals["xid"].B) != pf.marker || rec.Vals["branchId"].U != pf.vals["branchId"].U ||
					rec.Vals["resultCode"].U != rcSuccess || !seen {
					eq = false
				} else {
					c := call.(stubCall)
					if uint64(c.mgr) != pf.vals["branchType"].U || c.res.BranchId != int64(pf.vals["branchId"].U) ||
						c.res.ResourceId != string(pf.vals["resourceId"].B) || !bytes.Equal(c.res.ApplicationData, pf.vals["applicationData"].B) ||
						(c.op == "commit") != (pf.ty == "BranchCommitRequest") {
						eq = false
					}
				}
				fl.stubs.Delete(pf.marker)
			}
		}
		if got {
			delivered = append(delivered, k+1)
		} else {
			patience = 300 * time.Millisecond // the rest will hardly come either
		}
	}
	// the real session counts the packages whose dispatch has returned; the heartbeats among the frames are
	// visible only there: delivered heartbeats = counted packages - packages observed individually
	nhb := 0
	for _, pf := range pfs {
		if pf.kind == "hb" {
			nhb++
		}
	}
	cnt := -1
	if before >= 0 {
		want, wait := len(delivered), 200*time.Millisecond
		if len(delivered) == len(pfs)-nhb {
			want, wait = len(pfs), patience
		}
		recvOr(func() bool { n := readPkgs(sess); return n < 0 || n-before >= want }, wait)
		if n := readPkgs(sess); n >= 0 {
			cnt = n - before
		}
	}
	if hbGot := min(nhb, cnt-len(delivered)); hbGot > 0 {
		for k, pf := range pfs {
			if pf.kind == "hb" && hbGot > 0 {
				delivered = append(delivered, k+1)
				hbGot--
			}
		}
		sort.Ints(delivered)
	}

	ph("observe")
	// 5. did the session survive?  After junk the specification allows both (closed, or waiting for more).
	// (the client's side of the session is asked: getty closes the socket only about a second after the session)
	gone := func() bool { return conn.Closed() || sess.IsClosed() }
	if sc.Junk >= 16 {
		waitUntil(gone, time.Second)
	} else if sc.Junk > 0 {
		waitUntil(gone, 150*time.Millisecond) // fewer bytes than a header: the reader is expected to wait for more
	} else {
		waitUntil(gone, 3*time.Millisecond)
	}
	alive := !conn.Closed() && !sess.IsClosed()
	probeSig := "same"
	if sc.Junk > 0 && alive {
		// junk sits in the client's buffer: whatever follows on this connection is not a frame boundary any
		// more - the coordinator gives the connection up
		conn.RST()
		probeSig = "after-rst"
	} else if !alive {
		probeSig = "after-close"
	}
	if cnt < 0 && alive {
		cnt = -2 // the session is there but does not report: never accepted
	}
	s.Add("TcpDeliver", "sent", len(pfs), "delivered", delivered, "cn", cnt, "alive", alive, "eq", eq, "sig", sig)

	ph("alive")
	// 6. the client serves a fresh request afterwards (on the same connection if it is alive)
	pok := false
	if _, _, ok := l.liveConn(10 * time.Second); ok {
		served, over := l.probe(5 * time.Second)
		pok = served && (probeSig != "same" || over == conn.Idx)
	}
	ph("probe")
	s.Add("Probe", "ok", pok, "sig", "probe/"+probeSig+"/"+sig)
	s.Add("End", "sig", "end")
	s.End(class)
}
