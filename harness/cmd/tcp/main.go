// Driver of the TCP legs (C12, C13, C14, C15, C19): the client is initialised the documented way
// (client.InitPath, file registry with one address) and dials harness/tctcp, a coordinator stand-in on
// 127.0.0.1:0 that speaks the Seata v1 protocol with its own frame and body codec.  What every other
// driver bypasses is exercised here: getty.NewTCPClient, the real getty session and its receive loop,
// RpcPackageHandler.Read/Write, the codec, the listener and the processors.
//
// Modes (-mode):
//
//	frame      C13: TLC's fragmentation scenarios (Frame_Gen2/3: frame sequences x cut positions) written
//	           chunk by chunk (TCP_NODELAY, 1-3 ms pauses) to the connected client; the frames are messages
//	           the client accepts (responses to requests it has pending, heartbeats, branch commit/rollback
//	           requests answered by a stub resource manager)
//	wire       C12: boundary vectors of every message type the client sends (captured as raw bytes at the
//	           stand-in, decoded by the table interpreter) and expects (encoded by the table interpreter,
//	           compared with what the caller / the resource manager received)
//	rpc        C14: Rpc_Gen's reply schedules with concurrent SendSyncRequest callers; replies reordered,
//	           duplicated, dropped, late; connection loss by RST while requests are pending
//	inbound    C15: Inbound_Gen's request streams as bursts on the one connection: the scenario's branch commit /
//	           rollback requests plus 16..32 background requests written back to back, all stub managers
//	           released together, the replies read from the socket by the stand-in's own decoder
//	reconnect  C19: Sessions_GenRc's loss/reopen/settle scenarios with a real AT resource (proxy over memsql)
//	           and a TCC resource; the connection is dropped with RST, getty reconnects by itself
//
// The client's state is process-global: the parent only plans and collects, scenarios are executed by
// child processes of this binary (-child), a batch per child, each child with a stand-in (port) of its
// own.  A child that dies or hangs is a recorded event (Crash / Hang), not an infrastructure failure.
package main

import (
	"bufio"
	"encoding/json"
	"flag"
	"fmt"
	"os"
	"os/exec"
	"runtime"
	"strings"
	"sync"
	"time"

	"verif/harness/common"
	"verif/harness/trace"
)

type item struct {
	I     int             `json:"i"`     // scenario index
	Raw   json.RawMessage `json:"sc"`    // the scenario
	Info  interface{}     `json:"-"`     // scenario info of the trace
	Alone bool            `json:"-"`     // needs a child of its own
	Group int             `json:"group"` // items of different groups never share a child
	Policy string         `json:"-"`     // load-balance policy of the child (process-wide configuration)
}

type childLine struct {
	K     int      `json:"k"`
	Ev    trace.Ev `json:"ev,omitempty"`
	End   bool     `json:"end,omitempty"`
	Class string   `json:"class,omitempty"`
	Fatal string   `json:"fatal,omitempty"`
	Stat  string   `json:"stat,omitempty"`
}

type result struct {
	events []trace.Ev
	class  string
	ended  bool
}

var (
	childFlag = flag.Bool("child", false, "run as a child: items on stdin, events on fd 3")
	workersF  = flag.Int("workers", 0, "number of concurrent children (0: by mode)")
	policyF   = flag.String("policy", "XID", "child: getty.load-balance-type of the client")
)

func main() {
	o := common.Parse()
	if *childFlag {
		runChild(o)
		return
	}
	if o.Scenarios == "" {
		common.Fatal("-scenarios required (the layout table is exported by TLC)")
	}
	raws, err := trace.ReadScenarios(o.Scenarios)
	if err != nil {
		common.Fatal("%v", err)
	}
	var items []item
	workers := 4
	perChild := 0
	idle := 60 * time.Second
	stride := false
	switch o.Mode {
	case "frame":
		items = planFrame(o, raws)
		workers = 6
		stride = true
	case "wire":
		items = planWire(o, raws)
		workers = 6
	case "rpc":
		items = planRpc(o, raws)
		workers = 4
		idle = 90 * time.Second
	case "inbound":
		items = planInbound(o, raws)
		workers = 6
	case "reconnect":
		items = planReconnect(o, raws)
		workers = 8
		perChild = 6
	default:
		common.Fatal("unknown -mode %q", o.Mode)
	}
	if *workersF > 0 {
		workers = *workersF
	}
	if n := runtime.NumCPU(); workers > n {
		workers = n
	}
	// partition: contiguous chunks, one child per chunk
	var chunks [][]int
	groups := map[int][]int{}
	var gids []int
	for k, it := range items {
		if it.Alone {
			chunks = append(chunks, []int{k})
			continue
		}
		if _, ok := groups[it.Group]; !ok {
			gids = append(gids, it.Group)
		}
		groups[it.Group] = append(groups[it.Group], k)
	}
	for _, g := range gids {
		rest := groups[g]
		per := perChild
		if per == 0 {
			// children in proportion to the group's share of the work
			w := max(1, workers*len(rest)/max(1, len(items)))
			per = (len(rest) + w - 1) / w
		}
		// dealt out in turn, not cut into runs: expensive scenarios come in runs
		nch := (len(rest) + per - 1) / per
		dealt := make([][]int, nch)
		for j, k := range rest {
			if stride {
				dealt[j%nch] = append(dealt[j%nch], k)
			} else {
				dealt[j/per] = append(dealt[j/per], k)
			}
		}
		chunks = append(chunks, dealt...)
	}
	results := make([]result, len(items))
	sem := make(chan struct{}, workers)
	var wg sync.WaitGroup
	var mu sync.Mutex
	nchild, ncrash := 0, 0
	var stats []string
	t0 := time.Now()
	for _, ch := range chunks {
		wg.Add(1)
		sem <- struct{}{}
		go func(ch []int) {
			defer wg.Done()
			defer func() { <-sem }()
			c, k, st := runChunk(o, items, ch, results, idle)
			mu.Lock()
			nchild += c
			ncrash += k
			stats = append(stats, st...)
			mu.Unlock()
		}(ch)
	}
	wg.Wait()
	w, err := trace.NewWriter(o.Out)
	if err != nil {
		common.Fatal("%v", err)
	}
	w.SetBase(o.TraceBase())
	for k, it := range items {
		t := w.Begin(it.Info, results[k].class)
		for _, e := range results[k].events {
			ev, _ := e["ev"].(string)
			var kv []interface{}
			for f, v := range e {
				if f != "ev" {
					kv = append(kv, f, v)
				}
			}
			t.Add(ev, kv...)
		}
		t.Close()
	}
	if err := w.Close(); err != nil {
		common.Fatal("%v", err)
	}
	fmt.Printf("DRIVER-OK traces=%d scenarios=%d mode=%s children=%d crashes=%d wall=%.1fs %s\n", w.Count(), len(raws), o.Mode,
		nchild, ncrash, time.Since(t0).Seconds(), strings.Join(stats, " "))
}

// runChunk executes the items of one chunk in child processes.  When a child dies or goes silent, the
// scenarios it had started get a Crash/Hang event and the untouched rest continues in a new child.
func runChunk(o *common.Opts, items []item, ch []int, results []result, idle time.Duration) (children, crashes int, stats []string) {
	self, err := os.Executable()
	if err != nil {
		common.Fatal("%v", err)
	}
	todo := append([]int(nil), ch...)
	for len(todo) > 0 {
		children++
		pol := items[todo[0]].Policy
		if pol == "" {
			pol = "XID"
		}
		cmd := exec.Command(self, "-child", "-mode", o.Mode, "-tier", o.Tier, "-seed", fmt.Sprint(o.Seed), "-prop", o.Prop,
			"-scenarios", o.Scenarios, "-out", os.DevNull, "-policy", pol)
		stdin, _ := cmd.StdinPipe()
		pr, pw, err := os.Pipe()
		if err != nil {
			common.Fatal("%v", err)
		}
		cmd.ExtraFiles = []*os.File{pw}
		var stderr strings.Builder
		cmd.Stderr = &limitedWriter{b: &stderr, n: 1 << 16}
		cmd.Stdout = &limitedWriter{b: &strings.Builder{}, n: 1}
		if err := cmd.Start(); err != nil {
			common.Fatal("start child: %v", err)
		}
		pw.Close()
		go func(ks []int) {
			enc := json.NewEncoder(stdin)
			for _, k := range ks {
				enc.Encode(map[string]interface{}{"k": k, "i": items[k].I, "sc": items[k].Raw, "group": items[k].Group})
			}
			stdin.Close()
		}(todo)
		lines := make(chan childLine, 1024)
		go func() {
			defer close(lines)
			rd := bufio.NewReaderSize(pr, 1<<20)
			for {
				b, err := rd.ReadBytes('\n')
				if len(b) > 1 {
					var ln childLine
					if json.Unmarshal(b, &ln) == nil {
						lines <- ln
					}
				}
				if err != nil {
					return
				}
			}
		}()
		failed := ""
	loop:
		for {
			select {
			case ln, ok := <-lines:
				if !ok {
					break loop
				}
				if ln.Fatal != "" {
					cmd.Process.Kill()
					common.Fatal("child (%s): %s\n%s", o.Mode, ln.Fatal, tail(stderr.String(), 3000))
				}
				if ln.Stat != "" {
					stats = append(stats, ln.Stat)
					continue
				}
				if ln.K < 0 || ln.K >= len(results) {
					continue
				}
				if ln.End {
					results[ln.K].class = ln.Class
					results[ln.K].ended = true
				} else if ln.Ev != nil && !results[ln.K].ended {
					results[ln.K].events = append(results[ln.K].events, ln.Ev)
				}
			case <-time.After(idle):
				failed = "Hang"
				cmd.Process.Kill()
				break loop
			}
		}
		werr := cmd.Wait()
		pr.Close()
		var next []int
		started := 0
		for _, k := range todo {
			if results[k].ended {
				continue
			}
			if len(results[k].events) == 0 {
				next = append(next, k)
				continue
			}
			started++
			if failed == "" {
				failed = "Crash"
			}
			crashes++
			results[k].events = append(results[k].events, trace.Ev{"ev": failed, "sig": o.Mode + "/" + crashClass(stderr.String())})
			if results[k].class == "" {
				results[k].class = o.Mode + " " + strings.ToLower(failed)
			}
			results[k].ended = true
		}
		if len(next) == len(todo) {
			// no scenario of this child got as far as its first event: infrastructure, not behaviour
			common.Fatal("child (%s) made no progress (%v, %s)\n%s", o.Mode, werr, failed, tail(stderr.String(), 3000))
		}
		todo = next
	}
	return
}

type limitedWriter struct {
	b *strings.Builder
	n int
}

func (l *limitedWriter) Write(p []byte) (int, error) {
	if l.b.Len() < l.n {
		l.b.Write(p)
	}
	return len(p), nil
}

func tail(s string, n int) string {
	if len(s) > n {
		return s[len(s)-n:]
	}
	return s
}

// crashClass extracts the class of a Go crash from the child's stderr ("panic: ..." first line and the
// first frame inside the repository), without addresses.
func crashClass(stderr string) string {
	cls := "unknown"
	lines := strings.Split(stderr, "\n")
	for k, ln := range lines {
		if strings.HasPrefix(ln, "panic: ") || strings.HasPrefix(ln, "fatal error: ") {
			cls = ln
			if j := strings.Index(cls, "[recovered]"); j > 0 {
				cls = cls[:j]
			}
			for _, f := range lines[k:] {
				f = strings.TrimSpace(f)
				if strings.HasPrefix(f, "seata.apache.org/seata-go/") {
					if j := strings.Index(f, "("); j > 0 {
						f = f[:j]
					}
					cls += " @" + strings.TrimPrefix(f, "seata.apache.org/seata-go/")
					break
				}
			}
			break
		}
	}
	cls = strings.Map(func(r rune) rune {
		if r == '"' || r == '\\' || r < 32 {
			return '_'
		}
		return r
	}, cls)
	if len(cls) > 160 {
		cls = cls[:160]
	}
	return cls
}

// mix spreads (scenario index, seed) so that sampling does not correlate with the enumeration order
func mix(i, seed int64) int64 {
	x := uint64(i)*0x9E3779B97F4A7C15 + uint64(seed)*0xC2B2AE3D27D4EB4F
	x ^= x >> 29
	x *= 0xBF58476D1CE4E5B9
	x ^= x >> 32
	return int64(x & 0x7fffffff)
}

// ------------------------------------------------------------------------------------------- child side

type emitter struct {
	mu  sync.Mutex
	out *bufio.Writer
}

func (e *emitter) line(v childLine) {
	b, err := json.Marshal(v)
	if err != nil {
		panic(err)
	}
	e.mu.Lock()
	e.out.Write(b)
	e.out.WriteByte('\n')
	e.out.Flush()
	e.mu.Unlock()
}

// scen is the emitter of one scenario
type scen struct {
	em *emitter
	k  int
	i  int
	l  *lab
}

func (s *scen) Add(ev string, kv ...interface{}) {
	if s.l != nil {
		s.l.mark(s.k, 1)
	}
	m := trace.Ev{"ev": ev}
	for k := 0; k+1 < len(kv); k += 2 {
		m[kv[k].(string)] = kv[k+1]
	}
	s.em.line(childLine{K: s.k, Ev: m})
}

func (s *scen) End(class string) {
	if s.l != nil {
		s.l.mark(s.k, 2)
	}
	s.em.line(childLine{K: s.k, End: true, Class: class})
}

func (e *emitter) fatal(f string, a ...interface{}) {
	e.line(childLine{Fatal: fmt.Sprintf(f, a...)})
	os.Exit(3)
}

type childItem struct {
	K     int             `json:"k"`
	I     int             `json:"i"`
	Sc    json.RawMessage `json:"sc"`
	Group int             `json:"group"`
}

func runChild(o *common.Opts) {
	f := os.NewFile(3, "events")
	if f == nil {
		fmt.Fprintln(os.Stderr, "child: fd 3 missing")
		os.Exit(3)
	}
	em := &emitter{out: bufio.NewWriterSize(f, 1<<16)}
	var its []childItem
	in := bufio.NewReaderSize(os.Stdin, 1<<20)
	dec := json.NewDecoder(in)
	for dec.More() {
		var it childItem
		if err := dec.Decode(&it); err != nil {
			em.fatal("bad item: %v", err)
		}
		its = append(its, it)
	}
	if len(its) == 0 {
		return
	}
	lab := newLab(em, o, its)
	switch o.Mode {
	case "frame":
		lab.runFrames(its)
	case "wire":
		lab.runWire(its)
	case "rpc":
		lab.runRpc(its)
	case "inbound":
		lab.runInbound(its)
	case "reconnect":
		lab.runReconnects(its)
	}
	os.Exit(0) // do not wait for the client's goroutines
}
