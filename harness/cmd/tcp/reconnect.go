package main

import (
	"context"
	"database/sql"
	"encoding/json"
	"errors"
	"fmt"
	"sort"
	"strings"
	"sync"
	"time"

	sqlpkg "seata.apache.org/seata-go/pkg/datasource/sql"
	"seata.apache.org/seata-go/pkg/rm/tcc"
	"seata.apache.org/seata-go/pkg/tm"

	"verif/harness/atlab"
	"verif/harness/common"
	"verif/harness/memsql"
	"verif/harness/tc"
	"verif/harness/tctcp"
)

// ------------------------------------------------------------------------------------------- C19 reconnection for real

type rcStep struct {
	Op    string `json:"op"`
	By    bool   `json:"by,omitempty"`
	Shift int    `json:"shift,omitempty"`
	Kind  string `json:"kind,omitempty"`
}

type rcScenario struct {
	Part  string   `json:"part"`
	Steps []rcStep `json:"steps"`
}

func planReconnect(o *common.Opts, raws []json.RawMessage) []item {
	var items []item
	for i, raw := range raws {
		if tctcp.IsTableLine(raw) || !o.Want(i) {
			continue
		}
		var sc rcScenario
		if err := json.Unmarshal(raw, &sc); err != nil || sc.Part != "rc" || len(sc.Steps) == 0 {
			continue
		}
		if sc.Steps[0].By {
			continue // a second coordinator: the in-process leg's business (one address in the file registry here)
		}
		for g, pol := range rcPolicies {
			items = append(items, item{I: i, Raw: raw, Group: g, Policy: pol,
				Info: map[string]interface{}{"i": i, "mode": "tcp-reconnect", "policy": pol, "sc": sc}})
		}
	}
	sort.SliceStable(items, func(a, b int) bool { return items[a].Group < items[b].Group })
	// beyond TLC's scenarios: the coordinator closes the connection in an orderly way (FIN instead of RST) - what a
	// coordinator does when it is shut down for a restart.  One process each: a client that does not come back
	// is of no use for a further scenario.
	idx := len(raws)
	for _, steps := range [][]rcStep{
		{{Op: "init"}, {Op: "lose", Kind: "fin"}, {Op: "reopen"}, {Op: "settle"}},
		{{Op: "init"}, {Op: "work", Kind: "tx"}, {Op: "lose", Kind: "fin"}, {Op: "reopen"}, {Op: "settle"}},
	} {
		i := idx
		idx++
		if !o.Want(i) {
			continue
		}
		sc := rcScenario{Part: "rc", Steps: steps}
		raw, _ := json.Marshal(sc)
		items = append(items, item{I: i, Raw: raw, Alone: true, Policy: "XID",
			Info: map[string]interface{}{"i": i, "mode": "tcp-reconnect", "policy": "XID", "close": "fin", "sc": sc}})
	}
	return items
}

var rcPolicies = []string{"XID", "RandomLoadBalance", "RoundRobinLoadBalance", "ConsistentHashLoadBalance", "LeastActiveLoadBalance"}

type tccSvc struct{}

func (tccSvc) Prepare(ctx context.Context, params interface{}) (bool, error) { return true, nil }
func (tccSvc) Commit(ctx context.Context, bac *tm.BusinessActionContext) (bool, error) {
	return true, nil
}
func (tccSvc) Rollback(ctx context.Context, bac *tm.BusinessActionContext) (bool, error) {
	return true, nil
}
func (tccSvc) GetActionName() string { return "verifTcpTccAction" }

type pendingBranch struct {
	abs  string
	rid  string
	xid  string
	bid  uint64
	bt   uint64
	data []byte
	kind string // commit | rollback
}

type rcLab struct {
	*lab
	at     *atlab.Lab
	schema *atlab.Schema
	proxy  *tcc.TCCServiceProxy
	atRID  string
	tccRID string
	holdMu sync.Mutex
	holds  int
}

// what connection idx has announced so far (from the stand-in's log)
func (rl *rcLab) announced(idx int) (tmSeen bool, rms map[string]bool) {
	rms = map[string]bool{}
	for _, r := range rl.srv.Log() {
		if r.Dir != "in" || r.Conn != idx || r.Left != 0 {
			continue
		}
		switch r.Ty {
		case "RegisterTMRequest":
			tmSeen = true
		case "RegisterRMRequest":
			for _, rid := range strings.Split(string(r.Vals["resourceIds"].B), ",") {
				rms[strings.TrimSpace(rid)] = true
			}
		}
	}
	return
}

func (rl *rcLab) absOf(rid string) string {
	switch rid {
	case rl.atRID:
		return "at"
	case rl.tccRID:
		return "tcc"
	}
	return "other"
}

func (l *lab) runReconnects(its []childItem) {
	rl := &rcLab{lab: l}
	// the coordinator accepts a begin only on a connection that announced a transaction manager; a begin named
	// "inflight..." is held (its reply never comes)
	l.setScript(func(c *tctcp.Conn, r tctcp.Record) bool {
		if r.Ty == "GlobalBeginRequest" {
			name := string(r.Vals["transactionName"].B)
			if strings.HasPrefix(name, "inflight") {
				rl.holdMu.Lock()
				rl.holds++
				rl.holdMu.Unlock()
				return true
			}
			if t, _ := rl.announced(c.Idx); !t {
				c.Reply(r.Frame.ID, "GlobalBeginResponse", l.tb.WireNormal("GlobalBeginResponse",
					tctcp.Vals{"resultCode": tctcp.N(rcFailed), "msg": tctcp.S("channel is not registered as transaction manager")}, -1))
				return true
			}
		}
		return false
	})
	// request ids well ahead of the heartbeat ids (see runFrames)
	for k := 0; k < 300; k++ {
		if ok, _ := l.probe(3 * time.Second); !ok {
			l.behaviour("warmup", "warm-up request %d was not served", k)
		}
	}
	// an AT resource (the proxy over memsql) and a TCC resource: both register themselves over the socket
	sqlpkg.VerifRegisterDrivers("seata-at-memsql", "seata-xa-memsql", memsql.Driver{})
	srv := memsql.NewServer("tcpdb")
	srv.SetSeqSource(tc.NextSeq)
	srv.SetLockWaitTimeout(400 * time.Millisecond)
	srv.MustExec(atlab.UndoDDL)
	rl.at = &atlab.Lab{Srv: srv, NKeys: 2}
	db, err := sql.Open("seata-at-memsql", rl.at.DSN())
	if err != nil {
		l.em.fatal("open AT proxy: %v", err)
	}
	rl.at.DB = db
	if rl.at.Bare, err = sql.Open("memsql", rl.at.DSN()); err != nil {
		l.em.fatal("open memsql: %v", err)
	}
	rl.schema = atlab.Family()[0]
	srv.MustExec(rl.schema.DDL)
	rl.at.Load(rl.schema, []atlab.Row{{W: 0, U: 0}, {W: 0, U: 0}})
	if rl.proxy, err = tcc.NewTCCServiceProxy(&tccSvc{}); err != nil {
		l.em.fatal("tcc proxy: %v", err)
	}
	rl.tccRID = rl.proxy.GetActionName()
	for _, r := range l.srv.Log() {
		if r.Dir == "in" && r.Ty == "RegisterRMRequest" {
			if rid := string(r.Vals["resourceIds"].B); rid != rl.tccRID {
				rl.atRID = rid
			}
		}
	}
	if rl.atRID == "" {
		l.behaviour("at-not-registered", "the AT resource did not register itself over the socket")
	}
	t0 := time.Now()
	for k, it := range its {
		var sc rcScenario
		if err := json.Unmarshal(it.Sc, &sc); err != nil {
			l.em.fatal("scenario %d: %v", it.I, err)
		}
		rl.runReconnect(l.newScen(it), sc, it.I)
		if k == 0 {
			time.Sleep(350 * time.Millisecond) // a few cron periods of idleness: the timer's heartbeats travel
		}
	}
	hb := 0
	for _, r := range l.srv.Log() {
		if r.Dir == "in" && r.Frame.Type == tctcp.TypeHeartbeatReq {
			hb++
		}
	}
	l.em.line(childLine{Stat: fmt.Sprintf("[reconnect %s n=%d conns=%d heartbeats=%d %.1fs]", *policyF, len(its), l.srv.NConns(), hb, time.Since(t0).Seconds())})
}

func (rl *rcLab) runReconnect(s *scen, sc rcScenario, idx int) {
	l := rl.lab
	grace := 1500 * time.Millisecond
	conn, _, ok := l.liveConn(15 * time.Second)
	if !ok {
		l.behaviour("no-connection", "scenario %d: no live connection %s", idx, l.state())
	}
	// the connection this scenario starts on must carry everything (settle of the previous scenario, or the
	// registrations at start-up); Init reports what the stand-in really saw on it
	waitUntil(func() bool {
		t, r := rl.announced(conn.Idx)
		return t && r[rl.atRID] && r[rl.tccRID]
	}, 3*time.Second)
	base := conn.Idx - 1
	local := func(c int) int { return c - base }
	tm0, rm0 := rl.announced(conn.Idx)
	rm0abs := []string{}
	for rid := range rm0 {
		rm0abs = append(rm0abs, rl.absOf(rid))
	}
	sort.Strings(rm0abs)
	s.Add("Init", "part", "rc", "resources", []string{"at", "tcc"}, "by", false, "tm0", tm0, "rm0", rm0abs,
		"tmb", false, "rmb", []string{}, "sig", "init")

	var pend []pendingBranch
	nwork, losses := 0, 0
	point := "idle"
	how := "" // "/fin": the latest loss was an orderly close
	sigOf := func() string { return fmt.Sprintf("tcp-rc/%s/loss=%d/point=%s%s", *policyF, min(losses, 2), point, how) }
	emitted := map[string]bool{} // announcements already reported, "conn/kind/rid"
	emitAnnouncements := func() {
		for _, r := range l.srv.Log() {
			if r.Dir != "in" || r.Conn <= base+1 || r.Left != 0 {
				continue
			}
			switch r.Ty {
			case "RegisterTMRequest":
				if k := fmt.Sprintf("%d/tm", r.Conn); !emitted[k] {
					emitted[k] = true
					s.Add("AnnounceTM", "s", local(r.Conn), "sig", "announce-tm")
				}
			case "RegisterRMRequest":
				for _, rid := range strings.Split(string(r.Vals["resourceIds"].B), ",") {
					rid = strings.TrimSpace(rid)
					if k := fmt.Sprintf("%d/rm/%s", r.Conn, rid); !emitted[k] {
						emitted[k] = true
						s.Add("AnnounceRM", "s", local(r.Conn), "rid", rl.absOf(rid), "sig", "announce-rm")
					}
				}
			}
		}
	}
	finish := func() {
		emitAnnouncements()
		s.Add("End", "sig", "end")
		s.End(fmt.Sprintf("tcp-rc/%s losses=%d", *policyF, losses))
	}

	for _, st := range sc.Steps[1:] {
		switch st.Op {
		case "work":
			nwork++
			switch st.Kind {
			case "tx":
				commit := (int64(idx)+l.o.Seed+int64(nwork))%2 == 0
				pos := l.srv.Len()
				var xid string
				txerr := tm.WithGlobalTx(context.Background(), &tm.GtxConfig{Name: fmt.Sprintf("work-%d-%d", idx, nwork), Timeout: 30 * time.Second},
					func(ctx context.Context) error {
						xid = tm.GetXID(ctx)
						stmt := atlab.Stmt{Kind: "upd", Keys: []int{1 + (nwork-1)%2}, W: 1 + nwork%2, U: 0}
						if err := rl.at.RunBranch(ctx, rl.schema, []atlab.Stmt{stmt}, atlab.Style{}); err != nil {
							return fmt.Errorf("AT phase one: %w", err)
						}
						if _, err := rl.proxy.Prepare(ctx, map[string]interface{}{"n": nwork}); err != nil {
							return fmt.Errorf("TCC phase one: %w", err)
						}
						if !commit {
							return errors.New("business decides to roll back")
						}
						return nil
					})
				if commit && txerr != nil {
					s.Add("WorkFailed", "what", fmt.Sprint(txerr), "sig", sigOf()+"/workfailed")
					finish()
					return
				}
				reqs := map[int32]tctcp.Record{}
				got := []string{}
				for _, r := range l.srv.Since(pos) {
					if r.Dir == "in" && r.Ty == "BranchRegisterRequest" && string(r.Vals["xid"].B) == xid {
						reqs[r.Frame.ID] = r
					}
				}
				for _, r := range l.srv.Since(pos) {
					if r.Dir != "out" || r.Ty != "BranchRegisterResponse" {
						continue
					}
					req, ok := reqs[r.Frame.ID]
					if !ok {
						continue
					}
					rv, left := l.tb.Decode("BranchRegisterResponse", r.Frame.Body)
					if left != 0 || rv["resultCode"].U != rcSuccess {
						continue
					}
					k := "rollback"
					if commit {
						k = "commit"
					}
					rid := string(req.Vals["resourceId"].B)
					pend = append(pend, pendingBranch{abs: rl.absOf(rid), rid: rid, xid: xid, bid: rv["branchId"].U,
						bt: req.Vals["branchType"].U, data: req.Vals["applicationData"].B, kind: k})
					got = append(got, rl.absOf(rid))
				}
				sort.Strings(got)
				if len(got) != 2 {
					s.Add("WorkFailed", "what", fmt.Sprintf("branches %v err %v", got, txerr), "sig", sigOf()+"/workfailed")
					finish()
					return
				}
				point = "p1p2"
				s.Add("Work", "kind", "tx", "branches", got, "sig", "work/tx")
			case "inflight":
				rl.holdMu.Lock()
				before := rl.holds
				rl.holdMu.Unlock()
				go func(n int) {
					defer func() { recover() }()
					tm.WithGlobalTx(context.Background(), &tm.GtxConfig{Name: fmt.Sprintf("inflight-%d-%d", idx, n), Timeout: 30 * time.Second},
						func(ctx context.Context) error { return nil })
				}(nwork)
				if !waitUntil(func() bool { rl.holdMu.Lock(); defer rl.holdMu.Unlock(); return rl.holds > before }, 3*time.Second) {
					s.Add("WorkFailed", "what", "the in-flight begin never reached the coordinator", "sig", sigOf()+"/workfailed")
					finish()
					return
				}
				point = "inflight"
				s.Add("Work", "kind", "inflight", "branches", []string{}, "sig", "work/inflight")
			}
		case "lose":
			losses++
			if st.Kind == "fin" {
				how = "/fin"
				// getty's connect loop looks after a new connection for its first 300 ms (it re-dials when the session
				// is gone by then, whatever the reason): the orderly close comes when the connection is an old one
				time.Sleep(900 * time.Millisecond)
				s.Add("Lose", "sig", sigOf())
				conn.Close()
			} else {
				s.Add("Lose", "sig", sigOf())
				conn.RST()
			}
		case "reopen":
			// nothing is done here: getty has to reconnect by itself
			nc := l.srv.WaitConn(conn.Idx+1, 12*time.Second)
			if nc == nil {
				s.Add("NoReconnect", "sig", sigOf()+"/noreconnect")
				finish()
				return
			}
			conn = nc
			s.Add("Reopen", "sig", sigOf())
		case "settle":
			end := time.Now().Add(grace)
			for time.Now().Before(end) {
				t, r := rl.announced(conn.Idx)
				if t && r[rl.atRID] && r[rl.tccRID] {
					break
				}
				time.Sleep(2 * time.Millisecond)
			}
			time.Sleep(20 * time.Millisecond)
			emitAnnouncements()
			s.Add("Settle", "sig", sigOf())
			// a new global transaction
			berr := tm.WithGlobalTx(context.Background(), &tm.GtxConfig{Name: fmt.Sprintf("after-%d-%d", idx, conn.Idx), Timeout: 30 * time.Second},
				func(ctx context.Context) error { return nil })
			s.Add("BeginAfter", "ok", berr == nil, "sig", sigOf())
			// phase two of the earlier branches, routed the way the coordinator routes: only over a connection that
			// announced the resource
			for _, p := range pend {
				_, rms := rl.announced(conn.Idx)
				reached := rms[p.rid]
				answered := false
				if reached {
					ty := "BranchCommitRequest"
					if p.kind == "rollback" {
						ty = "BranchRollbackRequest"
					}
					vals := tctcp.Vals{"xid": tctcp.S(p.xid), "branchId": tctcp.N(p.bid), "branchType": tctcp.N(p.bt),
						"resourceId": tctcp.S(p.rid), "applicationData": tctcp.Val{B: p.data}}
					rec, ok := l.srv.Request(conn, l.srv.NextID(), ty, vals, 8*time.Second)
					want := strings.TrimSuffix(ty, "Request") + "Response"
					answered = ok && rec.Ty == want && rec.Left == 0 && string(rec.Vals["xid"].B) == p.xid && rec.Vals["branchId"].U == p.bid
				}
				s.Add("Phase2", "rid", p.abs, "kind", p.kind, "reached", reached, "answered", answered, "sig", sigOf()+"/"+p.abs+"/"+p.kind)
			}
			for _, p := range pend {
				l.srv.Model.ReleaseLocks(p.xid)
			}
			pend = nil
			point = "idle"
		}
	}
	for _, p := range pend {
		l.srv.Model.ReleaseLocks(p.xid)
	}
	finish()
}
