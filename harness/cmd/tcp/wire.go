package main

import (
	"bytes"
	"encoding/json"
	"fmt"
	"math"
	"math/rand"
	"sort"
	"strings"
	"sync"
	"time"

	"seata.apache.org/seata-go/pkg/protocol/branch"
	sgetty "seata.apache.org/seata-go/pkg/remoting/getty"
	"seata.apache.org/seata-go/pkg/rm"

	"verif/harness/common"
	"verif/harness/rmstub"
	"verif/harness/tctcp"
)

// ------------------------------------------------------------------------------------------- C12 over the wire

type vector struct {
	Ty string                 `json:"ty"`
	M  map[string]interface{} `json:"m"`
}

// planWire samples the TLC-exported boundary vectors: per message type the same number, chosen by seed.
func planWire(o *common.Opts, raws []json.RawMessage) []item {
	per := 150
	byTy := map[string][]item{}
	for i, raw := range raws {
		if tctcp.IsTableLine(raw) || !bytes.Contains(raw, []byte(`"ty":`)) || !o.Want(i) {
			continue
		}
		var v vector
		if err := json.Unmarshal(raw, &v); err != nil {
			common.Fatal("scenario %d: %v", i, err)
		}
		byTy[v.Ty] = append(byTy[v.Ty], item{I: i, Raw: raw, Info: map[string]interface{}{"i": i, "ty": v.Ty, "m": v.M}})
	}
	var tys []string
	for ty := range byTy {
		tys = append(tys, ty)
	}
	sort.Strings(tys)
	var items []item
	for _, ty := range tys {
		its := byTy[ty]
		if o.Only == nil && len(its) > per {
			sort.Slice(its, func(a, b int) bool { return mix(int64(its[a].I), o.Seed) < mix(int64(its[b].I), o.Seed) })
			its = its[:per]
			sort.Slice(its, func(a, b int) bool { return its[a].I < its[b].I })
		}
		items = append(items, its...)
	}
	// spread the types over the children
	sort.SliceStable(items, func(a, b int) bool { return mix(int64(items[a].I), 7) < mix(int64(items[b].I), 7) })
	return items
}

var runes = []string{"é", "ß", "中", "文", "키", "😀", "𝔘"}

// n bytes of text: ascii, multi-byte UTF-8 (exactly n bytes, padded with ASCII), or arbitrary bytes
func fill(r *rand.Rand, n int, binaryOK bool) []byte {
	b := make([]byte, 0, n)
	mode := r.Intn(5)
	switch {
	case mode <= 1:
		const al = "abcdefghijklmnopqrstuvwxyz0123456789:-._/ "
		for len(b) < n {
			b = append(b, al[r.Intn(len(al))])
		}
	case mode <= 3 || !binaryOK:
		for len(b) < n {
			s := runes[r.Intn(len(runes))]
			if r.Intn(4) == 0 || len(b)+len(s) > n {
				s = string(rune('a' + r.Intn(26)))
			}
			b = append(b, s...)
		}
	default:
		for len(b) < n {
			b = append(b, byte(r.Intn(256)))
		}
	}
	return b
}

// concrete values and class coordinates for the abstract message m (same classes as harness/cmd/wire)
func instantiate(tb *tctcp.Table, ty string, m map[string]interface{}, r *rand.Rand) (tctcp.Vals, string, error) {
	vals := tctcp.Vals{}
	var cls []string
	for _, d := range tb.Table[ty] {
		a, ok := m[d.F]
		if !ok {
			return nil, "", fmt.Errorf("vector of %s lacks field %s", ty, d.F)
		}
		var v tctcp.Val
		var c string
		switch d.K {
		case "u8":
			n := int(a.(float64))
			v.U, c = uint64(n), fmt.Sprintf("v%d", n)
		case "bool8", "bool16":
			v.T = a.(bool)
			c = map[bool]string{true: "T", false: "F"}[v.T]
		case "i64":
			c = a.(string)
			switch c {
			case "zero":
				v.U = 0
			case "one":
				v.U = 1
			case "max":
				v.U = math.MaxInt64
			case "minus1":
				v.U = math.MaxUint64
			case "min":
				v.U = 1 << 63
			case "rand":
				v.U = r.Uint64()
			default:
				return nil, "", fmt.Errorf("unknown i64 class %q", c)
			}
		case "ms32":
			c = a.(string)
			switch c {
			case "d0":
				v.U = 0
			case "d1":
				v.U = 1
			case "dmax31":
				v.U = math.MaxInt32
			case "dmax32":
				v.U = math.MaxUint32
			case "drand":
				v.U = uint64(r.Int63n(1 << 32))
			default:
				return nil, "", fmt.Errorf("unknown duration class %q", c)
			}
		default:
			n := int(a.(float64))
			v.B, c = fill(r, n, strings.HasPrefix(d.K, "bytes")), fmt.Sprintf("L%d", n)
			if n == 0 {
				v.B = nil
			}
		}
		vals[d.F] = v
		cls = append(cls, d.F+"="+c)
	}
	return vals, ty + ":" + strings.Join(cls, ","), nil
}

type wireLab struct {
	*lab
	mu      sync.Mutex
	capture chan tctcp.Record // armed: the next request / response of the client goes here
	capTy   string
	held    map[string]chan tctcp.Record
	lastMu  sync.Mutex
	last    *stubCall
}

func (l *lab) runWire(its []childItem) {
	wl := &wireLab{lab: l, held: map[string]chan tctcp.Record{}}
	h := func(mgr branch.BranchType, op string, res rm.BranchResource) (branch.BranchStatus, error) {
		wl.lastMu.Lock()
		wl.last = &stubCall{mgr, op, res}
		wl.lastMu.Unlock()
		if op == "commit" {
			return branch.BranchStatusPhasetwoCommitted, nil
		}
		return branch.BranchStatusPhasetwoRollbacked, nil
	}
	rmstub.Install(h)
	// the vectors use the branch-type bytes 0, 1 and 255: a recording manager for each of them
	for _, bt := range []branch.BranchType{0, 1, branch.BranchType(-1)} {
		rm.GetRmCacheInstance().RegisterResourceManager(&rmstub.Stub{BT: bt, H: h})
	}
	l.setScript(func(c *tctcp.Conn, r tctcp.Record) bool {
		if r.Frame.Type == tctcp.TypeHeartbeatReq {
			return false
		}
		wl.mu.Lock()
		defer wl.mu.Unlock()
		if wl.capture != nil && (r.Ty == wl.capTy || r.Ty == "") {
			wl.capture <- r
			wl.capture = nil
			return true
		}
		if ch := wl.held[markerOf(r)]; ch != nil {
			ch <- r
			return true
		}
		return false
	})
	sends := map[string]bool{}
	for _, t := range l.tb.Sends {
		sends[t] = true
	}
	t0 := time.Now()
	for _, it := range its {
		var v vector
		if err := json.Unmarshal(it.Sc, &v); err != nil {
			l.em.fatal("scenario %d: %v", it.I, err)
		}
		s := l.newScen(it)
		r := rand.New(rand.NewSource(l.o.Seed*1000003 + int64(it.I)))
		vals, sig, err := instantiate(l.tb, v.Ty, v.M, r)
		if err != nil {
			l.em.fatal("scenario %d: %v", it.I, err)
		}
		if _, _, ok := l.liveConn(10 * time.Second); !ok {
			l.behaviour("no-connection", "scenario %d: no live connection %s", it.I, l.state())
		}
		s.Add("Start", "ty", v.Ty, "m", v.M, "sig", "start")
		if sends[v.Ty] {
			wl.sendVector(s, v.Ty, vals, sig)
		} else {
			wl.expectVector(s, it.I, v.Ty, vals, sig)
		}
		s.Add("End", "sig", sig)
		s.End("tcp " + v.Ty)
	}
	l.em.line(childLine{Stat: fmt.Sprintf("[wire n=%d conns=%d %.1fs]", len(its), l.srv.NConns(), time.Since(t0).Seconds())})
}

// a message the client sends: captured as raw bytes at the stand-in
func (wl *wireLab) sendVector(s *scen, ty string, vals tctcp.Vals, sig string) {
	l := wl.lab
	msg, err := l.tb.ToStruct(ty, vals)
	if err != nil {
		l.em.fatal("%v", err)
	}
	ch := make(chan tctcp.Record, 1)
	wl.mu.Lock()
	wl.capture, wl.capTy = ch, ty
	wl.mu.Unlock()
	isResp := strings.HasSuffix(ty, "Response")
	var wantID int32
	if isResp {
		wantID = l.srv.NextID()
	}
	done := make(chan error, 1)
	go func() {
		defer func() {
			if p := recover(); p != nil {
				done <- fmt.Errorf("panic: %v", p)
			}
		}()
		if isResp {
			// the client's answer to a coordinator request with this id
			done <- sgetty.GetGettyRemotingClient().SendAsyncResponse(wantID, msg)
			return
		}
		_, err := sgetty.GetGettyRemotingClient().SendSyncRequest(msg)
		done <- err
	}()
	var rec tctcp.Record
	got := false
	select {
	case rec = <-ch:
		got = true
	case err := <-done:
		// the call returned without anything reaching the stand-in?
		select {
		case rec = <-ch:
			got = true
		case <-time.After(500 * time.Millisecond):
			_ = err
		}
	case <-time.After(5 * time.Second):
	}
	wl.mu.Lock()
	wl.capture = nil
	wl.mu.Unlock()
	if !got {
		s.Add("WireSent", "same", false, "len", -1, "cut", -1, "why", "nothing arrived", "sig", sig)
		return
	}
	real := rec.Frame.Body
	canon, cut, tlen := -1, -1, -1
	if d, off, ok := l.tb.TruncPrefix(ty, vals); ok {
		tlen = len(vals[d.F].B)
		canon = tlen
		if tlen > d.Trunc {
			canon = d.Trunc
		}
		cut = -2
		if wd := tctcp.Width(d.K); len(real) >= off+wd {
			cut = 0
			for _, c := range real[off : off+wd] {
				cut = cut<<8 | int(c)
			}
		}
	}
	used := canon // whether the cut is an allowed one is for TLC to say (WireLayout!Cuts)
	if cut >= 0 && cut <= tlen {
		used = cut
	}
	wn := l.tb.WireNormal(ty, vals, used)
	expected := l.tb.Encode(ty, wn)
	same := bytes.Equal(real, expected)
	why := ""
	if !same {
		why = "body bytes differ"
	}
	if same {
		// ... and the independent decoder reads them to the last byte and finds the message field by field
		if rec.Ty != ty || rec.Left != 0 || !tctcp.SameVals(tctcp.Norm(rec.Vals), tctcp.Norm(wn)) {
			same, why = false, "decoded fields differ: "+strings.Join(tctcp.Diff(tctcp.Norm(rec.Vals), tctcp.Norm(wn)), ",")
		}
	}
	// the frame around it
	wantType := byte(tctcp.TypeRequestSync)
	if isResp {
		wantType = tctcp.TypeResponse
	}
	if same && (rec.Frame.Type != wantType || rec.Frame.Codec != tctcp.CodecSeata || rec.Frame.Comp != 0 || (isResp && rec.Frame.ID != wantID)) {
		same, why = false, fmt.Sprintf("frame header type=%d codec=%d comp=%d id=%d", rec.Frame.Type, rec.Frame.Codec, rec.Frame.Comp, rec.Frame.ID)
	}
	if why != "" {
		s.Add("WireSent", "same", same, "len", len(real), "cut", cut, "why", why, "sig", sig)
	} else {
		s.Add("WireSent", "same", same, "len", len(real), "cut", cut, "sig", sig)
	}
	// let the caller return: the minimal answer a coordinator gives
	if !isResp {
		rty := strings.TrimSuffix(ty, "Request") + "Response"
		rv := tctcp.Vals{"resultCode": tctcp.N(rcSuccess), "identified": tctcp.Bo(true), "version": tctcp.S("1.5.2")}
		if c := l.srv.ConnAt(rec.Conn); c != nil {
			c.Reply(rec.Frame.ID, rty, l.tb.WireNormal(rty, rv, -1))
		}
		select {
		case <-done:
		case <-time.After(3 * time.Second):
		}
	}
}

// a message the client expects: encoded by the table interpreter, compared with what arrived at the caller
// (results) or at the resource manager and in the client's answer (coordinator requests)
func (wl *wireLab) expectVector(s *scen, idx int, ty string, vals tctcp.Vals, sig string) {
	l := wl.lab
	wn := tctcp.Norm(l.tb.WireNormal(ty, vals, l.tb.CanonCut(ty, vals)))
	conn, _, _ := l.liveConn(time.Second)
	if strings.HasSuffix(ty, "Response") {
		reqTy := strings.TrimSuffix(ty, "Response") + "Request"
		marker := fmt.Sprintf("w/%d", idx)
		ch := make(chan tctcp.Record, 1)
		wl.mu.Lock()
		wl.held[marker] = ch
		wl.mu.Unlock()
		done := make(chan callResult, 1)
		req := l.requestFor(reqTy, marker)
		go func() {
			defer func() {
				if p := recover(); p != nil {
					done <- callResult{err: fmt.Errorf("panic: %v", p)}
				}
			}()
			resp, err := sgetty.GetGettyRemotingClient().SendSyncRequest(req)
			done <- callResult{resp, err}
		}()
		var rec tctcp.Record
		select {
		case rec = <-ch:
		case <-time.After(3 * time.Second):
			s.Add("NotSent", "what", reqTy, "sig", "notsent/"+reqTy)
			return
		}
		wl.mu.Lock()
		delete(wl.held, marker)
		wl.mu.Unlock()
		l.srv.ConnAt(rec.Conn).Reply(rec.Frame.ID, ty, wn)
		select {
		case res := <-done:
			gty, gv, ok := l.tb.FromStruct(res.resp)
			same := res.err == nil && ok && gty == ty && tctcp.SameVals(tctcp.Norm(gv), wn)
			if same {
				s.Add("WireReceived", "same", true, "sig", sig)
			} else {
				why := fmt.Sprintf("err=%v type=%s", res.err, gty)
				if ok && gty == ty {
					why = "fields differ: " + strings.Join(tctcp.Diff(tctcp.Norm(gv), wn), ",")
				}
				s.Add("WireReceived", "same", false, "why", why, "sig", sig)
			}
		case <-time.After(4 * time.Second):
			s.Add("WireReceived", "same", false, "why", "the caller did not return within 4 s", "sig", sig)
		}
		return
	}
	// BranchCommitRequest / BranchRollbackRequest
	wl.lastMu.Lock()
	wl.last = nil
	wl.lastMu.Unlock()
	rec, ok := l.srv.Request(conn, l.srv.NextID(), ty, wn, 4*time.Second)
	wl.lastMu.Lock()
	call := wl.last
	wl.lastMu.Unlock()
	why := ""
	switch {
	case call == nil:
		why = "the request did not reach the resource manager"
	case !ok:
		why = "no answer came back over the socket"
	default:
		wantResp := strings.TrimSuffix(ty, "Request") + "Response"
		if byte(call.mgr) != byte(wn["branchType"].U) || call.res.Xid != string(wn["xid"].B) || call.res.BranchId != int64(wn["branchId"].U) ||
			call.res.ResourceId != string(wn["resourceId"].B) || !bytes.Equal(call.res.ApplicationData, wn["applicationData"].B) ||
			(call.op == "commit") != (ty == "BranchCommitRequest") {
			why = "the resource manager received other fields"
		} else if rec.Ty != wantResp || rec.Left != 0 || !bytes.Equal(rec.Vals["xid"].B, wn["xid"].B) || rec.Vals["branchId"].U != wn["branchId"].U {
			why = "the answer does not echo xid / branch id"
		}
	}
	if why == "" {
		s.Add("WireReceived", "same", true, "sig", sig)
	} else {
		s.Add("WireReceived", "same", false, "why", why, "sig", sig)
	}
}
