package main

import (
	"bytes"
	"encoding/json"
	"fmt"
	"sort"
	"strings"
	"sync"
	"sync/atomic"
	"time"

	getty "github.com/apache/dubbo-getty"

	"seata.apache.org/seata-go/pkg/protocol/branch"
	sgetty "seata.apache.org/seata-go/pkg/remoting/getty"
	"seata.apache.org/seata-go/pkg/rm"

	"verif/harness/common"
	"verif/harness/rmstub"
	"verif/harness/tctcp"
)

// ------------------------------------------------------------------------------------------- C14 over a socket
//
// Rpc_Gen's schedules (the same the in-process rpc driver replays): N goroutines call the real
// SendSyncRequest; the stand-in holds every request and writes the replies to the socket in the order,
// duplication and lateness TLC chose; a coordinator request or a heartbeat pong may reuse a pending id; the
// connection is lost by RST.  Event vocabulary and class coordinates are those of harness/cmd/rpc, so the
// traces are validated by Rpc_Trace.tla unchanged.  What cannot be seen directly over TCP - the return of
// the dispatch of one message - is read from the real session's package counter (getty increments it when
// OnMessage has returned); scenarios are therefore stepped one at a time.
//
// RpcRequestTimeout is 20 s: every scenario whose callers have not all returned when its schedule reaches
// "wave"/"loss"/the end is parked; all parked scenarios of a child wait for their timeouts together.

type rpcStep struct {
	Op string `json:"op"` // reply | late | dup | coordreq | hb | loss | wave
	C  int    `json:"c,omitempty"`
}

type rpcScenario struct {
	Cn    int       `json:"cn"`
	Steps []rpcStep `json:"steps"`
}

func hasOp(sc rpcScenario, op string) bool {
	for _, s := range sc.Steps {
		if s.Op == op {
			return true
		}
	}
	return false
}

func planRpc(o *common.Opts, raws []json.RawMessage) []item {
	var items []item
	n3 := 0
	for i, raw := range raws {
		if tctcp.IsTableLine(raw) || !bytes.Contains(raw, []byte(`"cn"`)) || !o.Want(i) {
			continue
		}
		var sc rpcScenario
		if err := json.Unmarshal(raw, &sc); err != nil {
			common.Fatal("scenario %d: %v", i, err)
		}
		// all schedules of up to three callers; a seeded sample of larger ones (if a configuration provides them)
		if sc.Cn >= 4 && o.Only == nil {
			if mix(int64(i), o.Seed)%8 != 0 {
				continue
			}
			n3++
		}
		g := 0
		if hasOp(sc, "loss") {
			g = 1 // the loss hits every scenario of the process: a process of their own
		}
		items = append(items, item{I: i, Raw: raw, Group: g, Info: map[string]interface{}{"i": i, "sc": sc, "mode": "tcp-rpc"}})
	}
	sort.SliceStable(items, func(a, b int) bool { return items[a].Group < items[b].Group })
	return items
}

type rpcCaller struct {
	c    int
	name string
	kind int
	id   int32
	sent chan tctcp.Record
	done chan struct{}
	mu   sync.Mutex
	hist []string
}

func (c *rpcCaller) note(s string) { c.mu.Lock(); c.hist = append(c.hist, s); c.mu.Unlock() }
func (c *rpcCaller) history() string {
	c.mu.Lock()
	defer c.mu.Unlock()
	return strings.Join(c.hist, "+")
}

type rpcDelivery struct {
	id   int32
	kind string
	sig  string
	back bool
}

type rpcRun struct {
	s        *scen
	i        int
	sc       rpcScenario
	callers  []*rpcCaller
	pos      int
	dels     []*rpcDelivery
	lastSend time.Time
	parked   bool
	skipped  bool
}

type rpcLab struct {
	*lab
	mu       sync.Mutex
	byName   map[string]*rpcCaller
	hbTarget atomic.Int32
	lastHB   atomic.Int32
	hbRun    atomic.Pointer[rpcRun]
	conn     *tctcp.Conn
	sess     getty.Session
	sent     int // frames written to sess whose dispatch must return
	base     int // readPkgs(sess) when `sent` was 0

	stuckList []stuckRef
}

const rpcGrace = 150 * time.Millisecond

var rpcReqTy = []string{"GlobalBeginRequest", "BranchRegisterRequest", "GlobalStatusRequest", "GlobalLockQueryRequest"}

func (rl *rpcLab) makeReq(kind int, name string) interface{} {
	return rl.requestFor(rpcReqTy[kind%4], name)
}

// the reply echoes the request's payload name in the error message of a Failed result (the only text field
// all four result types have on the wire)
func (rl *rpcLab) respFor(kind int, name string) (string, tctcp.Vals) {
	ty := strings.TrimSuffix(rpcReqTy[kind%4], "Request") + "Response"
	return ty, rl.tb.WireNormal(ty, tctcp.Vals{"resultCode": tctcp.N(rcFailed), "msg": tctcp.S(name)}, -1)
}

func (rl *rpcLab) classify(resp interface{}, err error, name string) string {
	if err != nil {
		if strings.Contains(err.Error(), "timeout") {
			return "timeout"
		}
		return "err"
	}
	if _, v, ok := rl.tb.FromStruct(resp); ok && string(v["msg"].B) == name {
		return "own"
	}
	return "other"
}

func (l *lab) runRpc(its []childItem) {
	rl := &rpcLab{lab: l, byName: map[string]*rpcCaller{}}
	rmstub.Install(func(mgr branch.BranchType, op string, res rm.BranchResource) (branch.BranchStatus, error) {
		return branch.BranchStatusPhasetwoCommitted, nil
	})
	l.setScript(func(c *tctcp.Conn, r tctcp.Record) bool {
		if r.Frame.Type == tctcp.TypeHeartbeatReq {
			id := r.Frame.ID
			rl.lastHB.Store(id)
			if tgt := rl.hbTarget.Load(); tgt != 0 && id == tgt {
				if run := rl.hbRun.Load(); run != nil {
					run.s.Add("Heartbeat", "id", int(id), "sig", "hb")
				}
				return true // the pong is written by the scenario
			}
			return false
		}
		name := markerOf(r)
		if strings.HasPrefix(name, "fresh/") {
			var k int
			fmt.Sscanf(name, "fresh/%d", &k)
			ty, v := rl.respFor(k, name)
			c.Reply(r.Frame.ID, ty, v)
			return true
		}
		rl.mu.Lock()
		cl := rl.byName[name]
		rl.mu.Unlock()
		if cl != nil {
			cl.sent <- r
			return true // held: the scenario decides when (and whether) the reply arrives
		}
		return false
	})
	var runs, hbRuns, rest []*rpcRun
	for _, it := range its {
		var sc rpcScenario
		if err := json.Unmarshal(it.Sc, &sc); err != nil {
			l.em.fatal("scenario %d: %v", it.I, err)
		}
		r := &rpcRun{s: l.newScen(it), i: it.I, sc: sc}
		for c := 1; c <= sc.Cn; c++ {
			cl := &rpcCaller{c: c, name: fmt.Sprintf("c14/%d/%d/%d", l.o.Seed, it.I, c), kind: int(mix(int64(it.I*8+c), l.o.Seed) % 4),
				sent: make(chan tctcp.Record, 1), done: make(chan struct{})}
			rl.mu.Lock()
			rl.byName[cl.name] = cl
			rl.mu.Unlock()
			r.callers = append(r.callers, cl)
		}
		runs = append(runs, r)
		if hasOp(sc, "hb") {
			hbRuns = append(hbRuns, r)
		} else {
			rest = append(rest, r)
		}
	}
	var ok bool
	if rl.conn, rl.sess, ok = l.liveConn(10 * time.Second); !ok {
		l.behaviour("no-connection", "no live connection %s", l.state())
	}
	rl.base = readPkgs(rl.sess)
	t0 := time.Now()
	// 1. everything before the timeouts, one scenario at a time; heartbeat collisions first (the counter only grows)
	for _, r := range append(hbRuns, rest...) {
		rl.first(r)
	}
	tFirst := time.Since(t0)
	// 2. the connection is lost, once, for the scenarios that ask for it (they have a process of their own)
	var parked []*rpcRun
	lossN := 0
	for _, r := range runs {
		if r.parked {
			parked = append(parked, r)
			if r.pos < len(r.sc.Steps) && r.sc.Steps[r.pos].Op == "loss" {
				lossN++
				r.pos++
				r.s.Add("ConnLost", "sig", "loss")
				for _, c := range r.callers {
					select {
					case <-c.done:
					default:
						c.note("loss")
					}
				}
			}
		}
	}
	if lossN > 0 {
		rl.settleDeliveries()
		rl.conn.RST()
		if rl.conn, rl.sess, ok = l.liveConn(15 * time.Second); !ok {
			l.behaviour("no-reconnect", "the client did not reconnect within 15 s after the reset %s", l.state())
		}
		rl.base, rl.sent = readPkgs(rl.sess), 0
	}
	// 3. the timeouts pass for all parked scenarios together; then late replies and the final look, one by one
	for _, r := range parked {
		deadline := r.lastSend.Add(35 * time.Second)
		for _, c := range r.callers {
			if !waitCh(c.done, time.Until(deadline)) {
				r.s.Add("Hang", "c", c.c, "sig", "hang:"+c.history())
			}
		}
	}
	for _, r := range parked {
		if r.pos < len(r.sc.Steps) && r.sc.Steps[r.pos].Op == "wave" {
			r.pos++
		}
		rl.advance(r)
		rl.quiesce(r)
	}
	fut, _ := sgetty.VerifPendingFutures()
	l.em.line(childLine{Stat: fmt.Sprintf("[rpc n=%d parked=%d loss=%d first=%.1fs total=%.1fs futures-left=%d]", len(runs), len(parked), lossN,
		tFirst.Seconds(), time.Since(t0).Seconds(), fut)})
}

func (rl *rpcLab) first(r *rpcRun) {
	r.s.Add("Start", "cn", r.sc.Cn, "sig", "start")
	collect := func(c *rpcCaller) {
		select {
		case rec := <-c.sent:
			c.id = rec.Frame.ID
			r.s.Add("Send", "c", c.c, "id", int(c.id), "sig", "send")
		case <-time.After(3 * time.Second):
			r.s.Add("NotSent", "c", c.c, "sig", "notsent")
		}
	}
	// the heartbeat scenarios need the newest request to be the last caller's: ids in caller order; all other
	// scenarios send at once (concurrent WritePkg on the one socket)
	seq := hasOp(r.sc, "hb") || mix(int64(r.i), rl.o.Seed+1)%3 == 0
	for _, c := range r.callers {
		c := c
		go func() {
			var v string
			func() {
				defer func() {
					if p := recover(); p != nil {
						v = "panic"
					}
				}()
				resp, err := sgetty.GetGettyRemotingClient().SendSyncRequest(rl.makeReq(c.kind, c.name))
				v = rl.classify(resp, err, c.name)
			}()
			r.s.Add("Return", "c", c.c, "v", v, "sig", v+":"+c.history())
			c.note(v)
			close(c.done)
		}()
		if seq {
			collect(c)
		}
	}
	if !seq {
		for _, c := range r.callers {
			collect(c)
		}
	}
	r.lastSend = time.Now()
	rl.advance(r)
	if r.skipped {
		// the heartbeat counter is already beyond the pending id: the collision cannot be produced any more
		r.s.End("tcp skipped")
		return
	}
	if r.pos >= len(r.sc.Steps) && r.allReturned() {
		rl.quiesce(r)
		return
	}
	r.parked = true
}

func (r *rpcRun) allReturned() bool {
	for _, c := range r.callers {
		select {
		case <-c.done:
		default:
			return false
		}
	}
	return true
}

// write one frame to the client and wait (briefly) for its dispatch to return
func (rl *rpcLab) deliver(r *rpcRun, ev, kind string, c *rpcCaller, f tctcp.Frame) {
	d := &rpcDelivery{id: f.ID, kind: kind, sig: kind + ":" + c.history()}
	r.dels = append(r.dels, d)
	r.s.Add(ev, "id", int(f.ID), "kind", kind, "sig", d.sig)
	c.note(kind)
	rl.sent++
	want := rl.base + rl.sent - rl.stuck()
	rl.conn.SendFrame(f)
	if waitUntil(func() bool { return readPkgs(rl.sess) >= want }, rpcGrace) {
		d.back = true
		r.s.Add("DeliveryReturned", "id", int(d.id), "kind", kind, "sig", d.sig)
	} else {
		rl.stuckList = append(rl.stuckList, stuckRef{r, d})
	}
}

type stuckRef struct {
	r *rpcRun
	d *rpcDelivery
}

func (rl *rpcLab) stuck() int { return len(rl.stuckList) }

// deliveries that had not returned within the grace period: have they by now?  The counter tells how many.
func (rl *rpcLab) settleDeliveries() {
	if len(rl.stuckList) == 0 {
		return
	}
	time.Sleep(50 * time.Millisecond)
	deficit := rl.base + rl.sent - readPkgs(rl.sess)
	for len(rl.stuckList) > deficit && len(rl.stuckList) > 0 {
		x := rl.stuckList[0]
		rl.stuckList = rl.stuckList[1:]
		x.d.back = true
		x.r.s.Add("DeliveryReturned", "id", int(x.d.id), "kind", x.d.kind, "sig", x.d.sig)
	}
}

func (rl *rpcLab) advance(r *rpcRun) {
	for r.pos < len(r.sc.Steps) {
		st := r.sc.Steps[r.pos]
		if st.Op == "wave" || st.Op == "loss" {
			return
		}
		r.pos++
		c := r.callers[st.C-1]
		switch st.Op {
		case "reply", "late", "dup":
			ty, v := rl.respFor(c.kind, c.name)
			rl.deliver(r, "Reply", st.Op, c, tctcp.Frame{ID: c.id, Type: tctcp.TypeResponse, Codec: tctcp.CodecSeata, Body: rl.tb.Encode(ty, v)})
			waitCh(c.done, rpcGrace)
		case "coordreq":
			// a phase-two request of the coordinator whose message id (from the coordinator's own counter) equals
			// the id of the pending request; the stub manager answers at once, the client responds with the same id
			body := rl.tb.Encode("BranchCommitRequest", tctcp.Vals{"xid": tctcp.S(rl.srv.Addr + ":99"), "branchId": tctcp.I64(int64(c.id)),
				"branchType": tctcp.N(1), "resourceId": tctcp.S("c14"), "applicationData": tctcp.S("{}")})
			wait, _ := rl.srv.Expect(c.id)
			rl.deliver(r, "CoordReq", "coordreq", c, tctcp.Frame{ID: c.id, Type: tctcp.TypeRequestSync, Codec: tctcp.CodecSeata, Body: body})
			wait(time.Second)
		case "hb":
			if rl.lastHB.Load() >= c.id {
				r.skipped = true
				return
			}
			rl.hbRun.Store(r)
			rl.hbTarget.Store(c.id)
			for rl.lastHB.Load() < c.id {
				before := rl.lastHB.Load()
				rl.sent++ // the stand-in's pong (none for the target: corrected below)
				sgetty.GetGettyClientHandlerInstance().OnCron(rl.sess)
				if !waitUntil(func() bool { return rl.lastHB.Load() != before }, time.Second) {
					r.skipped = true
					rl.sent--
					break
				}
				if cur := rl.lastHB.Load(); cur != c.id {
					// an ordinary heartbeat on the way: its pong must have been processed before the scenario goes on
					want := rl.base + rl.sent - rl.stuck()
					waitUntil(func() bool { return readPkgs(rl.sess) >= want }, time.Second)
				} else {
					rl.sent--
				}
			}
			rl.hbTarget.Store(0)
			if r.skipped {
				return
			}
			if rl.lastHB.Load() != c.id {
				continue
			}
			rl.deliver(r, "Pong", "pong", c, tctcp.Frame{ID: c.id, Type: tctcp.TypeHeartbeatResp, Codec: tctcp.CodecSeata})
		}
	}
}

func (rl *rpcLab) quiesce(r *rpcRun) {
	if r.skipped {
		return
	}
	rl.settleDeliveries()
	parked := 0
	for _, d := range r.dels {
		if !d.back {
			parked++
			r.s.Add("DeliveryStuck", "id", int(d.id), "kind", d.kind, "sig", d.sig)
		}
	}
	pending := 0
	for _, c := range r.callers {
		if sgetty.GetGettyRemotingClient().GetMessageFuture(c.id) != nil {
			pending++
		}
	}
	// a fresh request must still be served
	fresh := false
	fd := make(chan bool, 1)
	name := fmt.Sprintf("fresh/%d", r.i)
	go func() {
		defer func() {
			if recover() != nil {
				fd <- false
			}
		}()
		resp, err := sgetty.GetGettyRemotingClient().SendSyncRequest(rl.makeReq(r.i, name))
		fd <- rl.classify(resp, err, name) == "own"
	}()
	rl.sent++
	select {
	case fresh = <-fd:
	case <-time.After(3 * time.Second):
	}
	want := rl.base + rl.sent - rl.stuck()
	waitUntil(func() bool { return readPkgs(rl.sess) >= want }, rpcGrace)
	ops := map[string]bool{}
	for _, s := range r.sc.Steps {
		ops[s.Op] = true
	}
	var ol []string
	for o := range ops {
		ol = append(ol, o)
	}
	sort.Strings(ol)
	pl := func(n int) string {
		if n == 0 {
			return "0"
		}
		return "+"
	}
	r.s.Add("Quiesce", "pending", pending, "parked", parked, "fresh", fresh,
		"sig", fmt.Sprintf("pending=%s/parked=%s/fresh=%v:%s", pl(pending), pl(parked), fresh, strings.Join(ol, ",")))
	var b strings.Builder
	fmt.Fprintf(&b, "tcp n=%d", r.sc.Cn)
	for _, s := range r.sc.Steps {
		if s.C > 0 {
			fmt.Fprintf(&b, " %s%d", s.Op, s.C)
		} else {
			b.WriteString(" " + s.Op)
		}
	}
	r.s.End(b.String())
	rl.mu.Lock()
	for _, c := range r.callers {
		delete(rl.byName, c.name)
	}
	rl.mu.Unlock()
}
