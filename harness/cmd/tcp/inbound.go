package main

import (
	"bytes"
	"encoding/json"
	"errors"
	"fmt"
	"math/rand"
	"strings"
	"sync"
	"sync/atomic"
	"time"

	getty "github.com/apache/dubbo-getty"

	"seata.apache.org/seata-go/pkg/protocol/branch"
	sgetty "seata.apache.org/seata-go/pkg/remoting/getty"
	"seata.apache.org/seata-go/pkg/rm"

	"verif/harness/common"
	"verif/harness/rmstub"
	"verif/harness/tctcp"
)

// ------------------------------------------------------------------------------------------- C15 over a socket
//
// Inbound_Gen's request streams (the same the in-process inbound driver replays, same scenario format), but
// the coordinator is the TCP stand-in: the branch commit / rollback requests are frames written by tctcp's own
// encoder to the ONE connection the real client keeps, they travel through getty's receive loop,
// RpcPackageHandler.Read, the codec, the listener and the processors to the stub managers (harness/rmstub),
// and the replies come back through SendAsyncResponse -> session.WritePkg -> RpcPackageHandler.Write -> the
// socket.  What the coordinator "receives" is what tctcp's own reader and table interpreter decode from the
// bytes: message id, type, xid, branch id, status.  Event vocabulary and class coordinates are those of
// harness/cmd/inbound, so the traces are validated by Inbound_Trace.tla unchanged.
//
// Concurrency of the reply path is the point.  Every scenario is run as a BURST: its requests plus K
// (16..32, by seed) background requests - distinct message ids, xids of different lengths, distinct branch
// ids, succeeding managers whose status is a function of the branch id - are written back to back without
// waiting for any reply; every manager blocks until all requests of the burst have reached their manager
// (barrier); then all are released together (the scenario's managers in TLC's completion order, the
// background managers at one stroke somewhere in between), so that the replies of one burst are encoded and
// written at the same time on the one session.  Some bursts add a heartbeat written at the same moment.
//
// The scenario's own requests appear in the trace (Req / Invoke / Ret / Resp / End).  The background
// requests are checked here (dispatched exactly once to the manager of their type with their own arguments;
// exactly one reply, of the request's kind, with its message id, xid, branch id and the manager's status)
// and leave no event when they are right.  Whatever is wrong - a background reply with other fields, a
// second or a missing background reply, a reply that belongs to no request of the burst, a frame the
// table interpreter cannot decode, any other frame nobody asked for, the connection given up by the
// stand-in's frame reader (bad magic, impossible lengths: the stream is torn) or stalled inside a frame -
// is recorded as an event "Stray", for which Inbound_Trace has no action: the trace is rejected.  Nothing
// the stand-in reads is dropped silently: every record of its log is looked at, in order.
//
// "Nothing else is coming" (the End event) is established without guessing: the real session's package
// counter says that every frame the stand-in wrote has been dispatched and its OnMessage has returned (the
// replies are written synchronously inside), then a heartbeat is sent through the same session
// (OnCron): when the stand-in's reader has seen it, it has seen every byte written before it.

const (
	inWatchdog  = 5 * time.Second
	inFenceWait = 3 * time.Second
	inMaxLoss   = 6 // connections a child may lose before it gives the rest of its scenarios up (recorded)
	inRandom    = 240
)

type inReq struct {
	Kind   string `json:"kind"`
	Btype  string `json:"btype"`
	Xid    int    `json:"xid"`
	Bid    int    `json:"bid"`
	Rid    int    `json:"rid"`
	Status int    `json:"status"`
	Err    bool   `json:"err"`
}

// the scenario format of harness/cmd/inbound; Sched (arbitrary interleavings of deliveries and completions)
// is not used here: a burst is "all delivered, then all completed"
type inScenario struct {
	Reqs  []inReq `json:"reqs"`
	Order []int   `json:"order,omitempty"`
}

func inSigOf(q inReq) string {
	e := 0
	if q.Err {
		e = 1
	}
	return fmt.Sprintf("%s/%s/st%d/err%d", q.Kind, q.Btype, q.Status, e)
}

func inClassOf(sc inScenario) string {
	var b strings.Builder
	b.WriteString("tcp ")
	for _, q := range sc.Reqs {
		b.WriteString(inSigOf(q) + " ")
	}
	fmt.Fprintf(&b, "order=%v", sc.Order)
	return b.String()
}

// a random stream of 3..5 requests (as cmd/inbound's, without the schedule) and a random completion order
func inRandomScenario(rnd *rand.Rand) inScenario {
	n := 3 + rnd.Intn(3)
	var sc inScenario
	kinds := []string{"commit", "rollback"}
	bts := []string{"AT", "TCC", "XA"}
	for k := 0; k < n; k++ {
		q := inReq{Kind: kinds[rnd.Intn(2)], Btype: bts[rnd.Intn(3)], Xid: 1 + rnd.Intn(2), Bid: 1 + rnd.Intn(3),
			Rid: 1 + rnd.Intn(2), Status: rnd.Intn(11), Err: rnd.Intn(10) < 3}
		if rnd.Intn(4) == 0 {
			if q.Kind == "commit" {
				q.Status = 5
			} else {
				q.Status = 8
			}
		}
		sc.Reqs = append(sc.Reqs, q)
	}
	for _, p := range rnd.Perm(n) {
		sc.Order = append(sc.Order, p+1)
	}
	return sc
}

func planInbound(o *common.Opts, raws []json.RawMessage) []item {
	var items []item
	add := func(i int, sc inScenario) {
		raw, _ := json.Marshal(sc)
		items = append(items, item{I: i, Raw: raw, Info: map[string]interface{}{"i": i, "sc": sc, "mode": "tcp-inbound"}})
	}
	for i, raw := range raws {
		if tctcp.IsTableLine(raw) || !bytes.Contains(raw, []byte(`"reqs"`)) || !o.Want(i) {
			continue
		}
		var sc inScenario
		if err := json.Unmarshal(raw, &sc); err != nil {
			common.Fatal("scenario %d: %v", i, err)
		}
		add(i, sc)
	}
	rnd := o.Rand(1515)
	for k := 0; k < inRandom; k++ {
		sc := inRandomScenario(rnd)
		if o.Want(len(raws) + k) {
			add(len(raws)+k, sc)
		}
	}
	return items
}

type inSlot struct {
	bg     bool
	pos    int // scenario requests: 0-based position in the stream; background: index
	q      inReq
	msgID  int32
	xid    string
	bid    int64
	rid    string
	data   []byte
	sig    string
	respTy string

	release chan struct{} // scenario requests: their own; background: the burst's
	relOnce sync.Once
	entOnce sync.Once
	invoked atomic.Int32
	exited  atomic.Int32
	replies int // driver goroutine only

	mu  sync.Mutex
	bad []string // background: what the manager saw that it should not have
}

func (s *inSlot) noteBad(what string) { s.mu.Lock(); s.bad = append(s.bad, what); s.mu.Unlock() }

type inBurst struct {
	il      *inLab
	s       *scen
	i       int
	sc      inScenario
	slots   []*inSlot // the scenario's requests, in stream order
	bgs     []*inSlot
	byTag   map[string]*inSlot
	byMsg   map[int32]*inSlot
	byPlace map[string]*inSlot
	entered atomic.Int32
	bgRel   chan struct{}
	strays  int
}

type inLab struct {
	*lab
	conn *tctcp.Conn
	sess getty.Session
	loss int

	logPos int
	out    map[int]int // connection -> frames the stand-in has written to it
	pings  int         // heartbeat requests read from the current connection
	pinged int         // heartbeats sent through the current session (OnCron calls of this driver)

	emu     sync.RWMutex
	cur     *inBurst
	pending []func(b *inBurst) // observations made while no scenario was open

	nBurst, nBg, nHB int
}

func placeKey(xid string, bid int64, kind string) string {
	return fmt.Sprintf("%s/%d/%s", xid, bid, kind)
}

// stray records something no request of the current burst accounts for, in the scenario that is open (or in
// the next one): an event without an action in the trace specification.
func (il *inLab) stray(class, what string) {
	f := func(b *inBurst) {
		b.strays++
		if b.strays > 12 {
			return // the trace is rejected at the first; keep it small
		}
		if len(what) > 300 {
			what = what[:300]
		}
		b.s.Add("Stray", "what", what, "sig", "stray/"+class)
	}
	il.emu.Lock()
	if il.cur != nil {
		f(il.cur)
	} else {
		il.pending = append(il.pending, f)
	}
	il.emu.Unlock()
}

// the stub managers
func (il *inLab) handler(mgr branch.BranchType, op string, res rm.BranchResource) (branch.BranchStatus, error) {
	il.emu.RLock()
	b := il.cur
	il.emu.RUnlock()
	var s *inSlot
	if b != nil {
		s = b.byTag[string(res.ApplicationData)]
	}
	if s == nil {
		if b != nil {
			if p := b.byPlace[placeKey(res.Xid, res.BranchId, op)]; p != nil && !p.bg {
				// arguments garbled: what the manager saw goes into the trace of the request it most likely belongs to
				b.s.Add("Invoke", "mgr", rmstub.Name(mgr), "op", op, "id", -1, "xid", res.Xid, "bid", res.BranchId,
					"rid", res.ResourceId, "sig", p.sig+"/garbled-data")
				return branch.BranchStatusUnknown, errors.New("stub: unknown application data")
			}
		}
		il.stray("manager-call", fmt.Sprintf("%s manager %s called for xid=%s branch=%d resource=%s data=%q: no request of the burst",
			rmstub.Name(mgr), op, res.Xid, res.BranchId, res.ResourceId, res.ApplicationData))
		return branch.BranchStatusUnknown, errors.New("stub: unknown application data")
	}
	n := s.invoked.Add(1)
	defer s.exited.Add(1)
	if s.bg {
		if n > 1 {
			s.noteBad("dispatched more than once")
		}
		if rmstub.Name(mgr) != s.q.Btype || op != s.q.Kind || res.Xid != s.xid || res.BranchId != s.bid || res.ResourceId != s.rid {
			s.noteBad(fmt.Sprintf("%s manager %s got xid=%s branch=%d resource=%s", rmstub.Name(mgr), op, res.Xid, res.BranchId, res.ResourceId))
		}
	} else {
		b.s.Add("Invoke", "mgr", rmstub.Name(mgr), "op", op, "id", int(s.msgID), "xid", res.Xid, "bid", res.BranchId,
			"rid", res.ResourceId, "sig", s.sig)
	}
	s.entOnce.Do(func() { b.entered.Add(1) })
	select {
	case <-s.release:
	case <-time.After(30 * time.Second):
	}
	if !s.bg {
		b.s.Add("Ret", "id", int(s.msgID), "status", s.q.Status, "err", s.q.Err, "sig", s.sig)
	}
	if s.q.Err {
		return branch.BranchStatus(s.q.Status), errors.New("stub manager failed")
	}
	return branch.BranchStatus(s.q.Status), nil
}

func (l *lab) runInbound(its []childItem) {
	il := &inLab{lab: l, out: map[int]int{}}
	rmstub.Install(il.handler)
	t0 := time.Now()
	for _, it := range its {
		var sc inScenario
		if err := json.Unmarshal(it.Sc, &sc); err != nil {
			l.em.fatal("scenario %d: %v", it.I, err)
		}
		il.burst(it, sc)
	}
	il.emu.Lock()
	late := len(il.pending) // observations after the last scenario had ended (they have no trace to go to)
	il.emu.Unlock()
	l.em.line(childLine{Stat: fmt.Sprintf("[inbound n=%d background=%d heartbeats=%d conns=%d late=%d %.1fs]", il.nBurst, il.nBg, il.nHB,
		l.srv.NConns(), late, time.Since(t0).Seconds())})
}

// attach makes sure there is a live connection (waiting for getty's reconnect after the stand-in gave one up)
func (il *inLab) attach() {
	if il.conn != nil && !il.conn.Closed() && il.sess != nil && !il.sess.IsClosed() {
		return
	}
	if il.conn != nil {
		il.loss++
		if il.loss > inMaxLoss {
			il.behaviour("connection-lost", "the connection was lost %d times while replies were being written; the remaining scenarios of this process were not run", il.loss)
		}
		if !il.conn.Closed() {
			il.conn.RST()
		}
	}
	c, s, ok := il.liveConn(15 * time.Second)
	if !ok {
		il.behaviour("no-connection", "no live connection %s", il.state())
	}
	il.conn, il.sess, il.pings, il.pinged = c, s, 0, 0
}

func (il *inLab) mkSlot(b *inBurst, bg bool, pos int, q inReq, id int32, xid string, bid int64, rid string, data string) *inSlot {
	s := &inSlot{bg: bg, pos: pos, q: q, msgID: id, xid: xid, bid: bid, rid: rid, data: []byte(data), sig: inSigOf(q)}
	s.respTy = "BranchCommitResponse"
	if q.Kind == "rollback" {
		s.respTy = "BranchRollbackResponse"
	}
	if bg {
		s.release = b.bgRel
	} else {
		s.release = make(chan struct{})
	}
	b.byTag[data] = s
	if _, dup := b.byMsg[id]; dup {
		il.em.fatal("driver: message id %d twice in burst %d", id, b.i)
	}
	b.byMsg[id] = s
	b.byPlace[placeKey(xid, bid, q.Kind)] = s
	return s
}

func (il *inLab) frameOf(s *inSlot) tctcp.Frame {
	ty := "BranchCommitRequest"
	if s.q.Kind == "rollback" {
		ty = "BranchRollbackRequest"
	}
	v := il.tb.WireNormal(ty, tctcp.Vals{"xid": tctcp.S(s.xid), "branchId": tctcp.I64(s.bid), "branchType": tctcp.N(uint64(rmstub.Types[s.q.Btype])),
		"resourceId": tctcp.S(s.rid), "applicationData": tctcp.Val{B: s.data}}, -1)
	return tctcp.Frame{ID: s.msgID, Type: tctcp.TypeRequestSync, Codec: tctcp.CodecSeata, Body: il.tb.Encode(ty, v)}
}

func (il *inLab) burst(it childItem, sc inScenario) {
	il.attach()
	seed := il.o.Seed
	i := it.I
	b := &inBurst{il: il, s: il.newScen(it), i: i, sc: sc, byTag: map[string]*inSlot{}, byMsg: map[int32]*inSlot{}, byPlace: map[string]*inSlot{},
		bgRel: make(chan struct{})}
	rnd := rand.New(rand.NewSource(seed*7919 + int64(i)))
	pad := strings.Repeat("x", int(seed%5)*7)
	// the scenario's requests: ids, xids, branch ids as in cmd/inbound
	for p, q := range sc.Reqs {
		id := int32(1<<20 + i*8 + p)
		if p == 0 && i%16 == 0 {
			id = 0 // the coordinator's message counter starts at (or wraps to) 0
		}
		rid := "jdbc:mysql://db/known"
		if q.Rid != 1 {
			rid = fmt.Sprintf("never-registered-%d", i)
		}
		b.slots = append(b.slots, il.mkSlot(b, false, p, q, id,
			fmt.Sprintf("%s:%d", il.srv.Addr, 5_000_000+seed*100_000_000+int64(i)*4+int64(q.Xid)),
			seed*1_000_000_000+int64(i)*10+int64(q.Bid), rid, fmt.Sprintf(`{"s":%d,"p":%d,"pad":"%s"}`, i, p, pad)))
	}
	// the background requests
	nbg := 16 + int(mix(int64(i), seed+11)%17)
	bts := []string{"AT", "TCC", "XA"}
	for j := 0; j < nbg; j++ {
		bid := seed*1_000_000_000 + 500_000_000 + int64(i)*64 + int64(j)
		q := inReq{Kind: "commit", Btype: bts[rnd.Intn(3)], Status: int(bid % 11)}
		if rnd.Intn(2) == 0 {
			q.Kind = "rollback"
		}
		b.bgs = append(b.bgs, il.mkSlot(b, true, j, q, int32(1<<26+i*64+j),
			fmt.Sprintf("%s:%d%s", il.srv.Addr, 9_000_000+int64(i)*64+int64(j), strings.Repeat("7", rnd.Intn(14))),
			bid, fmt.Sprintf("jdbc:mysql://db/bg%d", j%3), fmt.Sprintf(`{"s":%d,"bg":%d,"pad":"%s"}`, i, j, strings.Repeat("y", rnd.Intn(40)))))
	}
	il.nBurst++
	il.nBg += nbg

	il.emu.Lock()
	b.s.Add("Start", "cn", len(b.slots), "sig", "start")
	il.cur = b
	pend := il.pending
	il.pending = nil
	il.emu.Unlock()
	for _, f := range pend {
		il.emu.Lock()
		f(b)
		il.emu.Unlock()
	}
	il.drain(b)

	// 1. all requests back to back: the scenario's in a seeded order at seeded places among the background
	send := append([]*inSlot(nil), b.bgs...)
	for _, p := range rnd.Perm(len(b.slots)) {
		at := rnd.Intn(len(send) + 1)
		send = append(send[:at], append([]*inSlot{b.slots[p]}, send[at:]...)...)
	}
	for _, s := range send {
		if !s.bg {
			b.s.Add("Req", "id", int(s.msgID), "kind", s.q.Kind, "btype", s.q.Btype, "xid", s.xid, "bid", s.bid,
				"rid", s.rid, "status", s.q.Status, "err", s.q.Err, "sig", s.sig)
		}
		if err := il.conn.SendFrame(il.frameOf(s)); err != nil {
			break // the connection is gone: seen below
		}
	}
	total := int32(len(send))
	gone := func() bool { return il.conn.Closed() }

	// 2. the barrier: every request of the burst is inside its manager
	waitUntil(func() bool { il.drain(b); return b.entered.Load() >= total || gone() }, inWatchdog)

	// 3. all managers return together; some bursts write a heartbeat at the same moment
	var hb sync.WaitGroup
	if mix(int64(i), seed+13)%4 == 0 {
		il.nHB++
		il.pinged++
		hb.Add(1)
		sess := il.sess
		go func() {
			defer hb.Done()
			<-b.bgRel
			sgetty.GetGettyClientHandlerInstance().OnCron(sess)
		}()
	}
	order := sc.Order
	if len(order) == 0 {
		for p := range b.slots {
			order = append(order, p+1)
		}
	}
	at := int(mix(int64(i), seed+17) % int64(len(order)+1))
	for k, p := range order {
		if k == at {
			close(b.bgRel)
		}
		s := b.slots[p-1]
		s.relOnce.Do(func() { close(s.release) })
	}
	if at >= len(order) {
		close(b.bgRel)
	}
	for _, s := range b.slots {
		s.relOnce.Do(func() { close(s.release) })
	}
	hb.Wait()

	// 4. every frame the stand-in wrote has been dispatched and its dispatch has returned
	quiet := func() bool {
		il.drain(b)
		return gone() || readPkgs(il.sess) >= il.out[il.conn.Idx]
	}
	hung := false
	if !waitUntil(quiet, inWatchdog) {
		hung = true
		var who []string
		for _, s := range append(append([]*inSlot(nil), b.slots...), b.bgs...) {
			if s.invoked.Load() > s.exited.Load() && len(who) < 4 {
				who = append(who, fmt.Sprintf("%d", s.msgID))
			}
		}
		b.s.Add("Hang", "what", fmt.Sprintf("dispatched=%d of %d written; managers not returned: %v", readPkgs(il.sess), il.out[il.conn.Idx], who),
			"sig", "hang")
	}

	// 5. the fence: a heartbeat through the same session; when the stand-in has read it, it has read every reply
	if !gone() && !hung {
		il.pinged++
		sgetty.GetGettyClientHandlerInstance().OnCron(il.sess)
		if !waitUntil(func() bool { il.drain(b); return il.pings >= il.pinged || gone() }, inFenceWait) {
			il.stray("stalled", "a heartbeat written after the replies did not reach the coordinator's frame reader within 3 s: the reader is inside a frame that never ends")
			il.conn.RST()
		}
	}
	if gone() {
		// give the managers and the dispatches of this burst the time to end before the next one starts
		waitUntil(func() bool {
			for _, s := range append(append([]*inSlot(nil), b.slots...), b.bgs...) {
				if s.invoked.Load() > s.exited.Load() {
					return false
				}
			}
			return true
		}, time.Second)
		time.Sleep(20 * time.Millisecond)
	}
	il.drain(b)

	// 6. the background requests are judged here
	for _, s := range b.bgs {
		s.mu.Lock()
		bad := append([]string(nil), s.bad...)
		s.mu.Unlock()
		for _, w := range bad {
			il.stray("bg-dispatch", fmt.Sprintf("background request id=%d %s %s xid=%s branch=%d: %s", s.msgID, s.q.Kind, s.q.Btype, s.xid, s.bid, w))
		}
		switch {
		case s.invoked.Load() == 0:
			il.stray("bg-not-dispatched", fmt.Sprintf("background request id=%d %s %s xid=%s branch=%d never reached a manager", s.msgID, s.q.Kind, s.q.Btype, s.xid, s.bid))
		case s.replies == 0:
			il.stray("bg-no-reply", fmt.Sprintf("background request id=%d %s xid=%s branch=%d (manager said %d): no reply", s.msgID, s.q.Kind, s.xid, s.bid, s.q.Status))
		case s.replies > 1:
			il.stray("bg-reply-twice", fmt.Sprintf("background request id=%d %s xid=%s branch=%d: %d replies", s.msgID, s.q.Kind, s.xid, s.bid, s.replies))
		}
	}
	missing := "ok"
	for _, s := range b.slots {
		if s.invoked.Load() == 0 {
			missing = "notrouted:" + s.sig
			break
		}
		if !s.q.Err && s.replies == 0 {
			missing = "noreply:" + s.sig
			break
		}
	}
	il.emu.Lock()
	b.s.Add("End", "sig", missing)
	b.s.End(inClassOf(sc))
	il.cur = nil
	il.emu.Unlock()
}

// drain looks at every record the stand-in has logged since the last look, in order.
func (il *inLab) drain(b *inBurst) {
	recs := il.srv.Since(il.logPos)
	il.logPos += len(recs)
	for _, r := range recs {
		switch r.Dir {
		case "out":
			il.out[r.Conn]++
		case "end":
			if il.conn != nil && r.Conn == il.conn.Idx && r.Note != "closed-by-tc" {
				class := r.Note
				if k := strings.Index(class, ":"); k > 0 {
					class = class[:k]
				}
				il.stray("connection-"+class, "the coordinator gave the connection up / lost it while replies were being written: "+r.Note)
			}
		case "in":
			il.incoming(b, r)
		}
	}
}

func (il *inLab) incoming(b *inBurst, r tctcp.Record) {
	f := r.Frame
	switch f.Type {
	case tctcp.TypeHeartbeatReq:
		if il.conn != nil && r.Conn == il.conn.Idx {
			il.pings++
		}
		return
	case tctcp.TypeResponse:
	case tctcp.TypeRequestSync, tctcp.TypeRequestOneway:
		// what the client says by itself when a session opens
		if (r.Ty == "RegisterTMRequest" || r.Ty == "RegisterRMRequest") && r.Left == 0 {
			return
		}
		il.stray("frame-unexpected", fmt.Sprintf("a request nobody expects: frame type=%d id=%d body type %q left=%d", f.Type, f.ID, r.Ty, r.Left))
		return
	default:
		il.stray("frame-unexpected", fmt.Sprintf("frame type=%d id=%d with a body of %d bytes", f.Type, f.ID, len(f.Body)))
		return
	}
	kind := ""
	switch r.Ty {
	case "BranchCommitResponse":
		kind = "commit"
	case "BranchRollbackResponse":
		kind = "rollback"
	}
	ok := kind != "" && r.Left == 0 && f.Codec == tctcp.CodecSeata && f.Comp == 0
	xid, bid, status, rc := string(r.Vals["xid"].B), int64(r.Vals["branchId"].U), int(r.Vals["branchStatus"].U), int(r.Vals["resultCode"].U)
	desc := fmt.Sprintf("id=%d type=%q codec=%d/%d left=%d xid=%s branch=%d status=%d", f.ID, r.Ty, f.Codec, f.Comp, r.Left, xid, bid, status)
	s := b.byMsg[f.ID]
	if s == nil && kind != "" {
		s = b.byPlace[placeKey(xid, bid, kind)]
		if s != nil && s.bg {
			// a background request's coordinates under a message id of no request
			s.replies++
			il.stray("bg-reply-fields", fmt.Sprintf("reply %s: xid / branch of background request id=%d", desc, s.msgID))
			return
		}
	}
	if s == nil {
		il.stray("reply-unmatched", "a reply that belongs to no request of the burst: "+desc)
		return
	}
	s.replies++
	if s.bg {
		if !ok || r.Ty != s.respTy || xid != s.xid || bid != s.bid || status != s.q.Status {
			il.stray("bg-reply-fields", fmt.Sprintf("reply %s, background request was %s xid=%s branch=%d and its manager said %d",
				desc, s.q.Kind, s.xid, s.bid, s.q.Status))
		}
		return
	}
	if !ok {
		// a reply with the request's id the coordinator cannot read: matches nothing
		b.s.Add("Resp", "id", int(f.ID), "kind", "unreadable:"+r.Ty, "xid", xid, "bid", bid, "status", status, "code", rc,
			"what", desc, "sig", s.sig+"/unreadable")
		return
	}
	b.s.Add("Resp", "id", int(f.ID), "kind", kind, "xid", xid, "bid", bid, "status", status, "code", rc, "sig", s.sig)
}
