// Driver for UndoCodec.tla (C08): undo-log encoding is lossless under every serializer and compressor
// setting.  Two legs, both fed by TLC-enumerated vectors (JDBC type x Go kind x value class x key flag x
// statement type x serializer x compress type x threshold class):
//
//	-mode parser  all serializers and compress types in one process.  A BranchUndoLog is built from
//	              the Go kinds the row scanner really produces for the class, and taken through the
//	              flush/undo pipeline assembled from the exported parts of the real code:
//	              parser cache Load -> Encode -> compressor registry -> Compress -> collection.EncodeMap
//	              (what FlushUndoLog does, plus the compression it records in the context) and
//	              collection.DecodeMap -> compressor chosen from the context -> Decompress -> parser
//	              chosen from the context -> Decode (what Undo does).  The decoded log is compared with
//	              the original under the undo executors' equality.
//	-mode e2e     one process per client configuration (env SERIALIZER, COMPRESS, THRCLASS).  A table with
//	              a column of the vector's MySQL type holds the class's values, one INSERT / UPDATE /
//	              DELETE runs through the real AT proxy inside a global transaction, the undo_log row is
//	              inspected (context; which encoder / compressor really produced the payload), the
//	              coordinator stand-in delivers the branch rollback, and the table must be back.
package main

import (
	"bytes"
	"context"
	"database/sql"
	"encoding/hex"
	"encoding/json"
	"errors"
	"fmt"
	"math"
	"math/rand"
	"os"
	"reflect"
	"sort"
	"strconv"
	"strings"
	"time"

	"seata.apache.org/seata-go/pkg/compressor"
	"seata.apache.org/seata-go/pkg/datasource/sql/types"
	"seata.apache.org/seata-go/pkg/datasource/sql/undo"
	"seata.apache.org/seata-go/pkg/datasource/sql/undo/parser"
	"seata.apache.org/seata-go/pkg/protocol/message"
	"seata.apache.org/seata-go/pkg/tm"
	"seata.apache.org/seata-go/pkg/util/collection"

	"verif/harness/atlab"
	"verif/harness/common"
	"verif/harness/tc"
	"verif/harness/trace"
)

type scenario struct {
	Jt   string `json:"jt"`
	Kind string `json:"kind"`
	Cls  string `json:"cls"`
	Key  bool   `json:"key"`
	Stmt string `json:"stmt"`
	Ser  string `json:"ser"`
	Comp string `json:"comp"`
	Thr  string `json:"thr"`
}

func (s scenario) sig() string {
	k := 0
	if s.Key {
		k = 1
	}
	return fmt.Sprintf("%s/%s,%s,%s,%s,%s,key=%d,thr=%s", s.Jt, s.Kind, s.Cls, s.Ser, s.Comp, s.Stmt, k, s.Thr)
}

var jdbc = map[string]types.JDBCType{
	"BIT": types.JDBCTypeBit, "TINYINT": types.JDBCTypeTinyInt, "SMALLINT": types.JDBCTypeSmallInt,
	"INTEGER": types.JDBCTypeInteger, "BIGINT": types.JDBCTypeBigInt, "REAL": types.JDBCTypeReal,
	"DOUBLE": types.JDBCTypeDouble, "DECIMAL": types.JDBCTypeDecimal, "CHAR": types.JDBCTypeChar,
	"VARCHAR": types.JDBCTypeVarchar, "LONGVARCHAR": types.JDBCTypeLongVarchar, "OTHER": types.JDBCTypeOther,
	"DATE": types.JDBCTypeDate, "TIME": types.JDBCTypeTime, "TIMESTAMP": types.JDBCTypeTimestamp,
	"BINARY": types.JDBCTypeBinary, "VARBINARY": types.JDBCTypeVarBinary, "LONGVARBINARY": types.JDBCTypeLongVarBinary,
}

var sqlTypes = map[string]types.SQLType{
	"insert": types.SQLTypeInsert, "update": types.SQLTypeUpdate, "delete": types.SQLTypeDelete,
	"upsert": types.SQLTypeInsertOnDuplicateUpdate,
}

// ---------------------------------------------------------------------------------------------------
// the value classes: concrete members, as the Go kinds the row scanner produces
// (int64, float64, string, time.Time, sql.RawBytes, nil)

const p53 = int64(1) << 53

func intRange(jt string) (lo, hi, umax int64) {
	switch jt {
	case "BIT":
		return 0, 255, 255
	case "TINYINT":
		return math.MinInt8, math.MaxInt8, math.MaxUint8
	case "SMALLINT":
		return math.MinInt16, math.MaxInt16, math.MaxUint16
	case "INTEGER":
		return math.MinInt32, math.MaxInt32, math.MaxUint32
	}
	return math.MinInt64, math.MaxInt64, math.MaxInt64
}

func randIn(r *rand.Rand, lo, hi int64) int64 { // lo <= hi, inclusive
	span := uint64(hi - lo)
	if span == math.MaxUint64 {
		return int64(r.Uint64())
	}
	return lo + int64(r.Uint64()%(span+1))
}

func pick(r *rand.Rand, pool []interface{}, n int) []interface{} {
	if len(pool) <= n {
		return pool
	}
	out := make([]interface{}, 0, n)
	for _, i := range r.Perm(len(pool))[:n] {
		out = append(out, pool[i])
	}
	return out
}

func randBase64Text(r *rand.Rand) string {
	const al = "ABCDEFGHIJKLMNOPQRSTUVWXYZabcdefghijklmnopqrstuvwxyz0123456789+/"
	n := 4 * (1 + r.Intn(5))
	b := make([]byte, n)
	for i := range b {
		b[i] = al[r.Intn(len(al))]
	}
	// a canonical base64 text: the last symbol of an unpadded group may be anything, so nothing to fix
	return string(b)
}

func randPlain(r *rand.Rand) string {
	words := []string{"order", "no.", "17", "paid;", "stock -", "a b", "état", "x_y", "~", "(ok)"}
	s := ""
	for i := 0; i < 2+r.Intn(4); i++ {
		s += words[r.Intn(len(words))] + " "
	}
	return s + "!" // blanks and '!' are outside every base64 alphabet
}

func strValues(cls string, r *rand.Rand) []interface{} {
	switch cls {
	case "empty":
		return []interface{}{""}
	case "plain":
		return []interface{}{"hello world", "a", "abc", "x-y_z!", randPlain(r), randPlain(r)}
	case "base64":
		return pick(r, []interface{}{"test", "abcd", "TWFu", "AAAA", "abcd1234", "YQ==", "Zm9v", "user", "name", "data",
			randBase64Text(r), randBase64Text(r), randBase64Text(r)}, 6)
	case "number":
		return pick(r, []interface{}{"123", "1234", "-5", "1e5", "007", "3.14", "12345678", "9007199254740993", "0",
			strconv.FormatInt(r.Int63(), 10), strconv.Itoa(1000 + r.Intn(9000))}, 6)
	case "json":
		return pick(r, []interface{}{`{"a": 1}`, `[1, 2, 3]`, `null`, `true`, `"quoted"`, `{"k": "v", "n": null}`, `{}`, `[]`,
			fmt.Sprintf(`{"id": %d, "tags": ["x", "y"]}`, r.Intn(1000))}, 6)
	case "timelike":
		// text that only looks like a point in time (an ISO-8601 stamp in a VARCHAR, a date, a clock time)
		return pick(r, []interface{}{"2024-03-09T10:15:30Z", "2024-03-09T10:15:30.250+08:00", "2024-03-09 10:15:30", "2024-03-09",
			"10:15:30", "0000-00-00 00:00:00", "2024-03-09T10:15:30", fmt.Sprintf("20%02d-0%d-1%dT0%d:00:00Z", r.Intn(30), 1+r.Intn(9), r.Intn(9), r.Intn(9))}, 6)
	case "multibyte":
		return pick(r, []interface{}{"日本語", "héllo", "😀 emoji", "Ünïcödé", "中文字符串测试", "Привет", "ab日"}, 5)
	case "escape":
		return pick(r, []interface{}{"a\"b", "back\\slash", "line\nbreak", "tab\there", "<script>&amp;</script>", "sep arator",
			"nul\x00byte", "'quote'", "%s %d", "\\u0041"}, 6)
	}
	return nil
}

func timeValues(jt, cls string, r *rand.Rand) []interface{} {
	trunc := func(t time.Time) interface{} {
		if jt == "DATE" {
			y, m, d := t.Date()
			return time.Date(y, m, d, 0, 0, 0, 0, t.Location())
		}
		if jt == "TIME" {
			// what a TIME value parsed as a time of day would be
			return time.Date(1, 1, 1, t.Hour(), t.Minute(), t.Second(), t.Nanosecond(), t.Location())
		}
		return t
	}
	rnd := func(loc *time.Location, nanos int) time.Time {
		return time.Date(1971+r.Intn(120), time.Month(1+r.Intn(12)), 1+r.Intn(28), r.Intn(24), r.Intn(60), r.Intn(60), nanos, loc)
	}
	var ts []time.Time
	switch cls {
	case "epoch":
		ts = []time.Time{time.Unix(0, 0).UTC(), {}, time.Unix(1, 0).UTC(), time.Date(2000, 1, 1, 0, 0, 0, 0, time.UTC)}
	case "nosub":
		ts = []time.Time{time.Date(2024, 2, 3, 4, 5, 6, 0, time.UTC), rnd(time.UTC, 0), rnd(time.UTC, 0), rnd(time.UTC, 0)}
	case "sub":
		ts = []time.Time{time.Date(2024, 2, 3, 4, 5, 6, 123456000, time.UTC), rnd(time.UTC, 500000000), rnd(time.UTC, 1000),
			rnd(time.UTC, 999999000), rnd(time.UTC, r.Intn(1000000)*1000)}
	case "min":
		ts = []time.Time{time.Date(1000, 1, 1, 0, 0, 0, 0, time.UTC), time.Date(1000, 1, 1, 0, 0, 1, 0, time.UTC),
			time.Date(1, 1, 1, 0, 0, 1, 0, time.UTC), time.Date(1001, 12, 31, 23, 59, 59, 0, time.UTC)}
	case "max":
		ts = []time.Time{time.Date(9999, 12, 31, 23, 59, 59, 0, time.UTC), time.Date(9999, 12, 31, 23, 59, 59, 999999000, time.UTC),
			time.Date(9999, 12, 31, 0, 0, 0, 0, time.UTC), time.Date(9999, 1, 1, 0, 0, 0, 0, time.UTC)}
	case "zone":
		e8 := time.FixedZone("CST", 8*3600)
		w := time.FixedZone("", -(3*3600 + 1800))
		ts = []time.Time{time.Date(2024, 2, 3, 4, 5, 6, 0, e8), rnd(e8, 123456000), rnd(w, 0), rnd(time.Local, 500000000)}
	}
	out := make([]interface{}, 0, len(ts))
	seen := map[string]bool{}
	for _, t := range ts {
		v := trunc(t)
		k := fmt.Sprint(v)
		if !seen[k] {
			seen[k] = true
			out = append(out, v)
		}
	}
	return out
}

func bytesValues(cls string, r *rand.Rand) []interface{} {
	rb := func(s string) interface{} { return sql.RawBytes(s) }
	switch cls {
	case "null", "empty":
		// GetScanSlice hands Scan a sql.RawBytes{}; a NULL leaves it untouched (ScanRows.Scan skips nil)
		return []interface{}{sql.RawBytes{}}
	case "bin":
		rndb := make([]byte, 3+r.Intn(20))
		r.Read(rndb)
		rndb[0], rndb[len(rndb)-1] = 0x00, 0xff
		return []interface{}{rb("\x00\xff"), rb("\x00"), rb("\xff\xfe\x00\x01"), sql.RawBytes(rndb), rb("\x80\x81abc")}
	case "ascii":
		return []interface{}{rb("hello world"), rb("abc"), rb("a"), rb(randPlain(r))}
	case "base64":
		return []interface{}{rb("test"), rb("abcd"), rb("TWFu"), rb(randBase64Text(r))}
	case "multibyte":
		return []interface{}{rb("日本語"), rb("héllo"), rb("😀"), rb("中文字符串测试")}
	}
	return nil
}

func intValues(jt, cls string, r *rand.Rand) []interface{} {
	lo, hi, umax := intRange(jt)
	i := func(vs ...int64) []interface{} {
		out := []interface{}{}
		seen := map[int64]bool{}
		for _, v := range vs {
			if !seen[v] {
				seen[v] = true
				out = append(out, v)
			}
		}
		return out
	}
	switch cls {
	case "zero":
		return i(0)
	case "positive":
		return i(1, 7, randIn(r, 1, hi), randIn(r, 1, hi), randIn(r, 1, min64(hi, 1000)))
	case "negative":
		return i(-1, -7, randIn(r, lo, -1), randIn(r, lo, -1), randIn(r, max64(lo, -1000), -1))
	case "min":
		return i(lo, lo+1, lo+2, lo+3)
	case "max":
		return i(hi, hi-1, hi-2, hi-3)
	case "umax": // the unsigned variant of the column type
		return i(umax, umax-1, hi+1, randIn(r, hi+1, umax))
	case "p53m1": // the last integers a float64 still tells apart
		return i(p53-1, p53, -(p53 - 1), -p53, p53-2)
	case "p53p1":
		return i(p53+1, p53+3, -(p53 + 1), randIn(r, p53, math.MaxInt64/2)|1, -(randIn(r, p53, math.MaxInt64/2) | 1))
	}
	return nil
}

func min64(a, b int64) int64 {
	if a < b {
		return a
	}
	return b
}
func max64(a, b int64) int64 {
	if a > b {
		return a
	}
	return b
}

func floatValues(jt, cls string, r *rand.Rand) []interface{} {
	// a FLOAT column arrives as the float64 widening of a float32
	n := func(f float64) float64 {
		if jt == "REAL" {
			return float64(float32(f))
		}
		return f
	}
	f := func(vs ...float64) []interface{} {
		out := []interface{}{}
		seen := map[uint64]bool{}
		for _, v := range vs {
			v = n(v)
			if math.IsInf(v, 0) || math.IsNaN(v) {
				continue
			}
			if !seen[math.Float64bits(v)] {
				seen[math.Float64bits(v)] = true
				out = append(out, v)
			}
		}
		return out
	}
	big, tiny := math.MaxFloat64, math.SmallestNonzeroFloat64
	if jt == "REAL" {
		big, tiny = math.MaxFloat32, math.SmallestNonzeroFloat32
	}
	if jt == "DECIMAL" {
		big, tiny = 99999999999999999999.0, 0.0000000001
	}
	switch cls {
	case "zero":
		return f(0, math.Copysign(0, -1))
	case "negative":
		return f(-1.5, -0.1, -r.Float64()*1e6, -r.ExpFloat64(), -2.25)
	case "fraction":
		return f(0.1, 1.1, 1.0/3.0, r.Float64(), r.Float64()*1e4, 2.5e-7)
	case "integral":
		return f(3, 1e15, float64(r.Intn(1e9)), 1, 1e6)
	case "min":
		return f(tiny, -big, tiny*3, -big/2)
	case "max":
		return f(big, big/2, big/3, big*0.999)
	case "p53m1":
		return f(float64(p53-1), float64(p53), -float64(p53-1), float64(p53-2))
	case "p53p1":
		return f(float64(p53+2), float64(p53)*8+8, -float64(p53+2), float64(p53)*1024)
	case "wide": // DECIMAL values with more significant digits than a float64 holds, as the scanner's float64 sees them
		return f(1234567890.0123456789, 99999999999999999999.9999999999, 0.1234567891, 12345678901234567.89)
	}
	return nil
}

// classValues returns the members of the scenario's class that this seed instantiates.
func classValues(sc scenario, r *rand.Rand) []interface{} {
	if sc.Cls == "null" && sc.Kind != "bytes" {
		return []interface{}{nil}
	}
	switch sc.Kind {
	case "int":
		return intValues(sc.Jt, sc.Cls, r)
	case "float":
		return floatValues(sc.Jt, sc.Cls, r)
	case "str":
		return strValues(sc.Cls, r)
	case "time":
		return timeValues(sc.Jt, sc.Cls, r)
	case "bytes":
		return bytesValues(sc.Cls, r)
	}
	return nil
}

// ---------------------------------------------------------------------------------------------------
// the undo executors' equality (undo/executor/utils.go IsRecordsEquals/compareRows/rowListToMap and
// datasource/utils.go DeepEqual), restated: rows are keyed by the text of their primary key values,
// values of numeric kinds are compared as numbers (exactly: the executors go through float64, which
// cannot tell 2^53 from 2^53+1 - a lossy comparison must not excuse a lossy codec), time values by
// instant, text and byte strings by content, everything else by reflect.DeepEqual.

func deref(v interface{}) interface{} {
	for v != nil {
		rv := reflect.ValueOf(v)
		if rv.Kind() != reflect.Ptr {
			return v
		}
		if rv.IsNil() {
			return nil
		}
		v = rv.Elem().Interface()
	}
	return v
}

func asBytes(v interface{}) ([]byte, bool) {
	switch x := v.(type) {
	case string:
		return []byte(x), true
	case []byte:
		return x, true
	case sql.RawBytes:
		return x, true
	}
	return nil, false
}

type num struct {
	isInt bool
	i     int64
	u     uint64 // used when isInt and the value exceeds MaxInt64
	big   bool
	f     float64
}

func asNum(v interface{}) (num, bool) {
	rv := reflect.ValueOf(v)
	switch rv.Kind() {
	case reflect.Int, reflect.Int8, reflect.Int16, reflect.Int32, reflect.Int64:
		return num{isInt: true, i: rv.Int()}, true
	case reflect.Uint, reflect.Uint8, reflect.Uint16, reflect.Uint32, reflect.Uint64:
		u := rv.Uint()
		if u > math.MaxInt64 {
			return num{isInt: true, big: true, u: u}, true
		}
		return num{isInt: true, i: int64(u)}, true
	case reflect.Float32, reflect.Float64:
		return num{f: rv.Float()}, true
	}
	return num{}, false
}

func numEqual(a, b num) bool {
	switch {
	case a.isInt && b.isInt:
		return a.big == b.big && a.i == b.i && a.u == b.u
	case !a.isInt && !b.isInt:
		return a.f == b.f
	case a.isInt:
		a, b = b, a
	}
	// a float, b integer: equal iff the float is that integer exactly
	if b.big || a.f != math.Trunc(a.f) || a.f >= 9223372036854775808.0 || a.f < -9223372036854775808.0 {
		return false
	}
	return int64(a.f) == b.i
}

func sameValue(orig, got interface{}) bool {
	orig, got = deref(orig), deref(got)
	if orig == nil || got == nil {
		return orig == nil && got == nil
	}
	if ot, ok := orig.(time.Time); ok {
		gt, ok := got.(time.Time)
		return ok && ot.Equal(gt)
	}
	if on, ok := asNum(orig); ok {
		gn, ok := asNum(got)
		return ok && numEqual(on, gn)
	}
	if ob, ok := asBytes(orig); ok {
		gb, ok := asBytes(got)
		return ok && bytes.Equal(ob, gb)
	}
	return reflect.DeepEqual(orig, got)
}

func pkText(row types.RowImage) string {
	var parts []string
	for _, c := range row.Columns {
		if c.KeyType == types.IndexTypePrimaryKey {
			v := deref(c.Value)
			if b, ok := asBytes(v); ok {
				v = string(b)
			}
			if tv, ok := v.(time.Time); ok {
				v = tv.UTC().Format(time.RFC3339Nano) // by instant: the zone's name is not part of the value
			}
			parts = append(parts, fmt.Sprintf("%v", v))
		}
	}
	return strings.Join(parts, "_##$$_")
}

type verdict struct{ rows, keys, values bool }

func (v verdict) res() string {
	switch {
	case !v.rows:
		return "rows"
	case !v.keys:
		return "keys"
	case !v.values:
		return "values"
	}
	return "equal"
}

func compareImage(o, g *types.RecordImage, v *verdict) {
	if o == nil || g == nil {
		if (o == nil) != (g == nil) && !(o != nil && len(o.Rows) == 0) && !(g != nil && len(g.Rows) == 0) {
			v.rows = false
		}
		if o != nil && g == nil && len(o.Rows) > 0 || g != nil && o == nil && len(g.Rows) > 0 {
			v.rows = false
		}
		return
	}
	if !strings.EqualFold(o.TableName, g.TableName) || o.SQLType != g.SQLType || len(o.Rows) != len(g.Rows) {
		v.rows = false
		return
	}
	// key flags, names and types travel with every column (position by position)
	for i := range o.Rows {
		if len(o.Rows[i].Columns) != len(g.Rows[i].Columns) {
			v.rows = false
			return
		}
		for j, oc := range o.Rows[i].Columns {
			gc := g.Rows[i].Columns[j]
			if oc.KeyType != gc.KeyType || oc.ColumnName != gc.ColumnName || oc.ColumnType != gc.ColumnType {
				v.keys = false
			}
		}
	}
	if !v.keys {
		return
	}
	// rows keyed by primary key text
	om := map[string]types.RowImage{}
	gm := map[string]types.RowImage{}
	for i := range o.Rows {
		om[pkText(o.Rows[i])] = o.Rows[i]
		gm[pkText(g.Rows[i])] = g.Rows[i]
	}
	if len(om) != len(gm) {
		v.rows = false
		return
	}
	for k, or := range om {
		gr, ok := gm[k]
		if !ok {
			v.rows = false
			return
		}
		gcols := map[string]interface{}{}
		for _, c := range gr.Columns {
			gcols[strings.ToUpper(c.ColumnName)] = c.Value
		}
		for _, c := range or.Columns {
			if !sameValue(c.Value, gcols[strings.ToUpper(c.ColumnName)]) {
				v.values = false
			}
		}
	}
}

func compareLogs(o, g *undo.BranchUndoLog) verdict {
	v := verdict{true, true, true}
	if g == nil || o.Xid != g.Xid || o.BranchID != g.BranchID || len(o.Logs) != len(g.Logs) {
		v.rows = false
		return v
	}
	for i := range o.Logs {
		ol, gl := o.Logs[i], g.Logs[i]
		if ol.SQLType != gl.SQLType || !strings.EqualFold(ol.TableName, gl.TableName) {
			v.rows = false
			return v
		}
		compareImage(ol.BeforeImage, gl.BeforeImage, &v)
		compareImage(ol.AfterImage, gl.AfterImage, &v)
	}
	return v
}

// ---------------------------------------------------------------------------------------------------
// parser level

func padText(kind string, r *rand.Rand) string {
	const n = 70 << 10
	if kind == "aboverep" {
		return strings.Repeat("pad pad pad ! ", n/14+1)
	}
	b := make([]byte, n)
	const al = "abcdefghijklmnopqrstuvwxyz ,.;:-_!?()0123456789"
	for i := range b {
		b[i] = al[r.Intn(len(al))]
	}
	b[0] = '!'
	return string(b)
}

func buildLog(sc scenario, vals []interface{}, r *rand.Rand) *undo.BranchUndoLog {
	jt := jdbc[sc.Jt]
	table := "t_c08"
	col := func(v interface{}) types.ColumnImage {
		kt := types.IndexTypeNull
		if sc.Key {
			kt = types.IndexTypePrimaryKey
		}
		return types.ColumnImage{KeyType: kt, ColumnName: "c_val", ColumnType: jt, Value: v}
	}
	pad := ""
	if sc.Thr != "below" {
		pad = padText(sc.Thr, r)
	}
	rows := func(shift int, mark int64) []types.RowImage {
		var out []types.RowImage
		for i := range vals {
			v := vals[i]
			if !sc.Key {
				v = vals[(i+shift)%len(vals)]
			}
			var cols []types.ColumnImage
			if !sc.Key {
				cols = append(cols, types.ColumnImage{KeyType: types.IndexTypePrimaryKey, ColumnName: "id", ColumnType: types.JDBCTypeInteger, Value: int64(i + 1)})
			}
			cols = append(cols, col(v))
			cols = append(cols, types.ColumnImage{KeyType: types.IndexTypeNull, ColumnName: "c_mark", ColumnType: types.JDBCTypeInteger, Value: mark})
			if pad != "" && i == 0 {
				cols = append(cols, types.ColumnImage{KeyType: types.IndexTypeNull, ColumnName: "c_pad", ColumnType: types.JDBCTypeVarchar, Value: pad})
			}
			out = append(out, types.RowImage{Columns: cols})
		}
		return out
	}
	st := sqlTypes[sc.Stmt]
	before := &types.RecordImage{TableName: table, SQLType: st}
	after := &types.RecordImage{TableName: table, SQLType: st}
	switch sc.Stmt {
	case "insert":
		after.Rows = rows(0, 1)
	case "delete":
		before.Rows = rows(0, 1)
	default:
		before.Rows = rows(0, 1)
		after.Rows = rows(1, 2)
	}
	// branch ids of a real coordinator are far above 2^53
	return &undo.BranchUndoLog{
		Xid:      fmt.Sprintf("10.0.0.%d:8091:%d", 1+r.Intn(250), r.Int63()),
		BranchID: uint64(r.Int63()) | 1<<60 | 1,
		Logs:     []undo.SQLUndoLog{{SQLType: st, TableName: table, BeforeImage: before, AfterImage: after}},
	}
}

func short(v interface{}) string {
	s := fmt.Sprint(v)
	if len(s) > 120 {
		s = s[:120] + "..."
	}
	return s
}

// guard runs f; a panic is an observable
func guard(f func() error) (res string, detail string) {
	defer func() {
		if p := recover(); p != nil {
			res, detail = "panic", short(p)
		}
	}()
	if err := f(); err != nil {
		return "err", short(err)
	}
	return "ok", ""
}

func compName(c compressor.Compressor) string {
	switch c.(type) {
	case *compressor.NoneCompressor:
		return "None"
	case *compressor.Gzip:
		return "Gzip"
	case *compressor.Zip, compressor.Zip:
		return "Zip"
	case *compressor.Bzip2:
		return "Bzip2"
	case *compressor.Lz4:
		return "Lz4"
	case *compressor.DeflateCompress:
		return "Deflate"
	case *compressor.Zstd, compressor.Zstd:
		return "Zstd"
	}
	return fmt.Sprintf("%T", c)
}

const (
	serializerKey     = "serializerKey"     // undo/base/undo.go
	compressorTypeKey = "compressorTypeKey" // undo/base/undo.go
)

// runParser encodes the scenario's log (what phase one does) and returns the rest - decompress, decode,
// compare (what a rollback does) - as a continuation: the caller lets several branches encode before any of
// them is read back, as happens whenever branches of different transactions are in flight together.
func runParser(t *trace.T, sc scenario, r *rand.Rand) (rollback func()) {
	sig := sc.sig()
	vals := classValues(sc, r)
	if len(vals) == 0 {
		common.Fatal("no values for %+v", sc)
	}
	orig := buildLog(sc, vals, r)
	t.Add("Start", "leg", "parser", "ser", sc.Ser, "comp", sc.Comp, "thr", sc.Thr, "jt", sc.Jt, "kind", sc.Kind, "cls", sc.Cls,
		"key", sc.Key, "stmt", sc.Stmt, "nvals", len(vals), "sig", sig)

	// ---- flush: serializeBranchUndoLog
	var p parser.UndoLogParser
	var info []byte
	res, detail := guard(func() (err error) {
		if p, err = parser.GetCache().Load(sc.Ser); err != nil {
			return err
		}
		info, err = p.Encode(orig)
		return err
	})
	t.Add("Encode", "ser", sc.Ser, "res", res, "detail", detail, "sig", sig)
	if res != "ok" {
		t.Add("End", "sig", sig)
		return nil
	}
	return func() {
		defer t.Add("End", "sig", sig)
		runParserRest(t, sc, orig, info, sig)
	}
}

func runParserRest(t *trace.T, sc scenario, orig *undo.BranchUndoLog, info []byte, sig string) {
	var res, detail string
	// the compression the context announces (FlushUndoLog records the configured type)
	cmp := compressor.CompressorType(sc.Comp).GetCompressor()
	applied := compName(cmp)
	var stored []byte
	res, detail = guard(func() (err error) {
		stored, err = cmp.Compress(info)
		return err
	})
	ctxComp := sc.Comp
	if res == "err" {
		// a compressor may refuse (incompressible data): fall back to the plain payload and say so in the context
		res, applied, stored, ctxComp = "fallback", "None", info, string(compressor.CompressorNone)
	}
	t.Add("Compress", "applied", applied, "res", res, "detail", detail, "sig", sig)
	if res == "panic" {
		return
	}
	ctxBytes := collection.EncodeMap(map[string]string{serializerKey: sc.Ser, compressorTypeKey: ctxComp})

	// ---- undo: decodeUndoLogCtx, getRollbackInfo, deserializeBranchUndoLog
	logCtx := collection.DecodeMap(ctxBytes)
	t.Add("Stored", "cser", logCtx[serializerKey], "ccomp", logCtx[compressorTypeKey], "res", "ok", "sig", sig)
	var plain []byte
	res, detail = guard(func() (err error) {
		plain = stored
		if v, ok := logCtx[compressorTypeKey]; ok {
			plain, err = compressor.CompressorType(v).GetCompressor().Decompress(stored)
		}
		if err == nil && !bytes.Equal(plain, info) {
			return errors.New("decompressed payload differs from the compressed one")
		}
		return err
	})
	t.Add("Decompress", "res", res, "detail", detail, "sig", sig)
	if res != "ok" {
		return
	}
	var got *undo.BranchUndoLog
	res, detail = guard(func() (err error) {
		dp, err := parser.GetCache().Load(logCtx[serializerKey])
		if err != nil {
			return err
		}
		got, err = dp.Decode(plain)
		return err
	})
	t.Add("Decode", "ser", logCtx[serializerKey], "res", res, "detail", detail, "sig", sig)
	if res != "ok" {
		return
	}
	var v verdict
	res, detail = guard(func() error { v = compareLogs(orig, got); return nil })
	if res != "ok" {
		t.Add("Compare", "equalRows", false, "equalKeys", false, "equalValues", false, "res", "harness-panic", "detail", detail, "sig", sig)
		return
	}
	t.Add("Compare", "equalRows", v.rows, "equalKeys", v.keys, "equalValues", v.values, "res", v.res(), "sig", sig)
}

// an unknown serializer name must be refused by the parser cache (error, not a nil parser or a panic)
func runUnknownSerializer(t *trace.T, name string) {
	sig := "unknown-serializer"
	t.Add("Start", "leg", "parser", "ser", name, "comp", "None", "thr", "below", "jt", "INTEGER", "kind", "int", "cls", "zero",
		"key", false, "stmt", "update", "nvals", 0, "sig", sig)
	res, detail := guard(func() error {
		p, err := parser.GetCache().Load(name)
		if err == nil && p == nil {
			return nil
		}
		if err == nil {
			return nil
		}
		return err
	})
	if res == "err" {
		res = "refused"
	}
	t.Add("Encode", "ser", name, "res", res, "detail", detail, "sig", sig)
	t.Add("End", "sig", sig)
}

// ---------------------------------------------------------------------------------------------------
// end to end

type colDef struct {
	name, ddl, uddl string // uddl: the unsigned variant (class umax)
}

var e2eCols = map[string]colDef{
	"BIT/int":             {"c_bit", "BIT(8)", ""},
	"TINYINT/int":         {"c_tiny", "TINYINT", "TINYINT UNSIGNED"},
	"SMALLINT/int":        {"c_small", "SMALLINT", "SMALLINT UNSIGNED"},
	"INTEGER/int":         {"c_int", "INT", "INT UNSIGNED"},
	"BIGINT/int":          {"c_big", "BIGINT", ""},
	"REAL/float":          {"c_flt", "FLOAT", ""},
	"DOUBLE/float":        {"c_dbl", "DOUBLE", ""},
	"DECIMAL/float":       {"c_dec", "DECIMAL(30,10)", ""},
	"CHAR/str":            {"c_ch", "CHAR(64)", ""},
	"VARCHAR/str":         {"c_vc", "VARCHAR(255)", ""},
	"LONGVARCHAR/str":     {"c_txt", "TEXT", ""},
	"DATE/time":           {"c_date", "DATE", ""},
	"TIME/time":           {"c_time", "TIME(6)", ""},
	"TIMESTAMP/time":      {"c_dt", "DATETIME(6)", ""},
	"BINARY/bytes":        {"c_tb", "TINYBLOB", ""},
	"VARBINARY/bytes":     {"c_vb", "VARBINARY(255)", ""},
	"LONGVARBINARY/bytes": {"c_blob", "BLOB", ""},
	"LONGVARCHAR/bytes":   {"c_mt", "MEDIUMTEXT", ""},
}

// e2eValues: the class members as statement arguments (what an application would bind)
func e2eValues(sc scenario, r *rand.Rand) []interface{} {
	if sc.Cls == "null" {
		return []interface{}{nil}
	}
	if sc.Jt == "DECIMAL" {
		switch sc.Cls {
		case "zero":
			return []interface{}{"0"}
		case "negative":
			return []interface{}{"-1.5", "-0.1", fmt.Sprintf("-%d.%02d", r.Intn(1e6), r.Intn(100)), "-2.25"}
		case "fraction":
			return []interface{}{"0.1", "1.1", "0.3333333333", fmt.Sprintf("%d.%04d", r.Intn(1e4), r.Intn(1e4))}
		case "integral":
			return []interface{}{"3", "1000000000000000", strconv.Itoa(r.Intn(1e9)), "1"}
		case "min":
			return []interface{}{"0.0000000001", "-99999999999999999999.9999999999", "0.0000000003"}
		case "max":
			return []interface{}{"99999999999999999999.9999999999", "99999999999999999999", "12345678901234567890.5"}
		case "p53m1":
			return []interface{}{"9007199254740991", "9007199254740992", "-9007199254740991"}
		case "p53p1":
			return []interface{}{"9007199254740993", "9007199254740995", "-9007199254740993"}
		case "wide":
			return []interface{}{"1234567890.0123456789", "0.1234567891", "12345678901234567.89", "7.0000000001"}
		}
	}
	vals := classValues(sc, r)
	out := make([]interface{}, 0, len(vals))
	for _, v := range vals {
		switch x := v.(type) {
		case sql.RawBytes:
			out = append(out, []byte(x))
		case time.Time:
			if sc.Jt == "TIME" { // a TIME value is bound as text
				out = append(out, x.Format("15:04:05.000000"))
				continue
			}
			if x.Year() < 1000 { // below the range of DATE/DATETIME
				continue
			}
			out = append(out, x)
		case float64:
			if x == 0 && math.Signbit(x) {
				continue // whether a column keeps the sign of zero is the database's business
			}
			if sc.Jt == "REAL" && math.Abs(x) > 1e38 {
				x = float64(float32(x / 2)) // stay clear of the stand-in's FLT_MAX boundary check
			}
			out = append(out, x)
		default:
			out = append(out, v)
		}
	}
	if sc.Kind == "bytes" && sc.Cls == "empty" {
		if emptyBinaryIsNil {
			return nil
		}
		return []interface{}{[]byte{}}
	}
	return out
}

// emptyBinaryIsNil: the database stand-in hands an empty binary value to the client as a nil slice (the
// MySQL driver hands over an empty one); the client would record NULL for it, which is the stand-in's doing
var emptyBinaryIsNil bool

func probeStandIn(lab *atlab.Lab) {
	lab.Srv.MustExec("CREATE TABLE t_c08_probe (id INT NOT NULL, b VARBINARY(8) NULL, PRIMARY KEY (id))")
	lab.Srv.MustExec("INSERT INTO t_c08_probe VALUES (1, ?)", []byte{})
	rows, err := lab.Bare.Query("SELECT b FROM t_c08_probe")
	if err != nil {
		common.Fatal("probe: %v", err)
	}
	defer rows.Close()
	for rows.Next() {
		var v sql.RawBytes
		if err := rows.Scan(&v); err != nil {
			common.Fatal("probe: %v", err)
		}
		emptyBinaryIsNil = v == nil
	}
}

type e2eLab struct {
	lab      *atlab.Lab
	orphaned bool // a rollback without undo log has been delivered in this process
	norphan  int
}

func openE2E(o *common.Opts) *e2eLab {
	cfg := tc.DefaultConfig()
	cfg.Serialization = env("SERIALIZER", "json")
	comp := env("COMPRESS", "None")
	if comp == "EMPTY" {
		comp = ""
	}
	cfg.CompressType = strconv.Quote(comp) // a double-quoted YAML scalar: blanks and the empty string survive
	cfg.CompressEnable = true
	cfg.CompressThreshold = "64k"
	if env("THRCLASS", "below") == "above" {
		cfg.CompressThreshold = "1k"
	}
	lab := atlab.Open(cfg, fmt.Sprintf("dbc08s%d", o.ShardK))
	// parseTime=true: without it no table with a DATE/DATETIME column gets through phase one
	db, err := sql.Open("seata-at-memsql", lab.Srv.DSNWithParams("testdb", "multiStatements=true&interpolateParams=true&parseTime=true"))
	if err != nil {
		common.Fatal("open proxy: %v", err)
	}
	lab.DB = db
	for _, r := range lab.Coord.Log() {
		if req, ok := r.Body.(message.RegisterRMRequest); ok {
			lab.RID = req.ResourceIds
		}
	}
	if got := undo.UndoConfig.CompressConfig.Type; got != comp {
		common.Fatal("compress type %q did not reach the client configuration (got %q)", comp, got)
	}
	if got := undo.UndoConfig.LogSerialization; got != cfg.Serialization {
		common.Fatal("serializer %q did not reach the client configuration (got %q)", cfg.Serialization, got)
	}
	probeStandIn(lab)
	return &e2eLab{lab: lab}
}

func env(name, def string) string {
	if v, ok := os.LookupEnv(name); ok {
		return v
	}
	return def
}

func unhex(v interface{}) []byte {
	switch x := v.(type) {
	case []byte:
		return x
	case string:
		if strings.HasPrefix(x, "0x") {
			if b, err := hex.DecodeString(x[2:]); err == nil {
				return b
			}
		}
		return []byte(x)
	}
	return []byte(fmt.Sprint(v))
}

// sniff tells which encoder and which compressor really produced the stored payload
func sniff(info []byte, xid string) (pser, applied string) {
	plainSer := func(b []byte) string {
		var m map[string]interface{}
		if json.Unmarshal(b, &m) == nil {
			if m["xid"] == xid {
				return "json"
			}
		}
		ser := ""
		guard(func() error {
			p, _ := parser.GetCache().Load("protobuf")
			l, err := p.Decode(b)
			if err == nil && l != nil && l.Xid == xid {
				ser = "protobuf"
			}
			return nil
		})
		return ser
	}
	if s := plainSer(info); s != "" {
		return s, "None"
	}
	for _, c := range []string{"Gzip", "Zip", "Bzip2", "Lz4", "Deflate", "Zstd"} {
		var out []byte
		res, _ := guard(func() (err error) {
			out, err = compressor.CompressorType(c).GetCompressor().Decompress(info)
			return err
		})
		if res == "ok" {
			if s := plainSer(out); s != "" {
				return s, c
			}
		}
	}
	return "unknown", "unknown"
}

func markValue(sc scenario, n int) string {
	if sc.Thr == "above" {
		return fmt.Sprintf("mark %d ", n) + strings.Repeat("lorem ipsum, dolor sit amet! ", 50)
	}
	return fmt.Sprintf("mark %d !", n)
}

func placeholders(n int) string {
	return strings.TrimSuffix(strings.Repeat("?, ", n), ", ")
}

func runE2E(e *e2eLab, t *trace.T, sc scenario, r *rand.Rand) (aborted bool) {
	lab := e.lab
	sig := sc.sig()
	cd, ok := e2eCols[sc.Jt+"/"+sc.Kind]
	if !ok {
		common.Fatal("no end-to-end column for %s/%s", sc.Jt, sc.Kind)
	}
	vals := e2eValues(sc, r)
	t.Add("Start", "leg", "e2e", "ser", sc.Ser, "comp", sc.Comp, "thr", sc.Thr, "jt", sc.Jt, "kind", sc.Kind, "cls", sc.Cls,
		"key", sc.Key, "stmt", sc.Stmt, "nvals", len(vals), "sig", sig)
	defer t.Add("End", "sig", sig)
	abort := func(why string) bool {
		t.Add("Abort", "why", short(why), "sig", sig)
		return true
	}
	if len(vals) == 0 {
		return abort("class has no member in the column's range")
	}
	ddlType, variant := cd.ddl, ""
	if sc.Cls == "umax" {
		if cd.uddl == "" {
			return abort("no unsigned variant")
		}
		ddlType, variant = cd.uddl, "u"
	}
	if sc.Cls == "json" && sc.Jt == "CHAR" {
		ddlType, variant = "JSON", "j" // a JSON column is reported with the CHAR type code
	}
	var table, pk string
	lab.Reset()
	if sc.Key {
		table, pk = "t_c08k_"+cd.name+variant, cd.name
		kt := ddlType
		if kt == "TEXT" || kt == "BLOB" {
			return abort("type cannot be a primary key")
		}
		lab.Srv.MustExec(fmt.Sprintf("CREATE TABLE %s (%s %s NOT NULL, c_mark VARCHAR(2000) NULL, PRIMARY KEY (%s))", table, cd.name, kt, cd.name))
	} else {
		table, pk = "t_c08_"+cd.name+variant, "id"
		lab.Srv.MustExec(fmt.Sprintf("CREATE TABLE %s (id INT NOT NULL, %s %s NULL, c_mark VARCHAR(2000) NULL, PRIMARY KEY (id))", table, cd.name, ddlType))
	}
	// distinct key values only
	if sc.Key {
		seen := map[string]bool{}
		var uniq []interface{}
		for _, v := range vals {
			k := fmt.Sprintf("%v", v)
			if !seen[k] {
				seen[k] = true
				uniq = append(uniq, v)
			}
		}
		vals = uniq
	}
	n := len(vals)
	keyOf := func(i int) interface{} {
		if sc.Key {
			return vals[i]
		}
		return int64(i + 1)
	}
	load := func() error {
		for i := range vals {
			var err error
			if sc.Key {
				_, err = lab.Srv.Exec(fmt.Sprintf("INSERT INTO %s (%s, c_mark) VALUES (?, ?)", table, cd.name), vals[i], markValue(sc, i))
			} else {
				_, err = lab.Srv.Exec(fmt.Sprintf("INSERT INTO %s (id, %s, c_mark) VALUES (?, ?, ?)", table, cd.name), int64(i+1), vals[i], markValue(sc, i))
			}
			if err != nil {
				return err
			}
		}
		return nil
	}
	if sc.Stmt != "insert" {
		if err := load(); err != nil {
			return abort("the database stand-in refused the class value: " + err.Error())
		}
	}
	if !sc.Key {
		// a bystander row the statement does not touch
		lab.Srv.MustExec(fmt.Sprintf("INSERT INTO %s (id, c_mark) VALUES (100, 'bystander')", table))
	}
	h0 := lab.Srv.SnapshotHash(table)
	// now and then (and before the first flush of the process) a rollback arrives for a branch that wrote no undo
	// log (its phase one died before the flush): the client answers by storing a "global finished" marker row whose
	// context is written by the same encoder as a real log's - with today's compress type, not "None".  Whatever
	// that leaves behind in the process must not leak into the context of the logs flushed afterwards.
	if !e.orphaned || r.Intn(4) == 0 {
		e.orphaned = true
		e.norphan++
		_, _ = lab.Rollback(fmt.Sprintf("10.0.0.1:8091:%d", 880000+e.norphan), int64(990000+e.norphan), 0) // its answer is C10's business
	}

	var q string
	var args []interface{}
	switch sc.Stmt {
	case "update":
		if sc.Key {
			q = fmt.Sprintf("UPDATE %s SET c_mark = ? WHERE %s IN (%s)", table, pk, placeholders(n))
			args = append(args, markValue(sc, 77))
		} else {
			q = fmt.Sprintf("UPDATE %s SET %s = ?, c_mark = ? WHERE %s IN (%s)", table, cd.name, pk, placeholders(n))
			args = append(args, vals[n-1], markValue(sc, 77))
		}
		for i := 0; i < n; i++ {
			args = append(args, keyOf(i))
		}
	case "delete":
		q = fmt.Sprintf("DELETE FROM %s WHERE %s IN (%s)", table, pk, placeholders(n))
		for i := 0; i < n; i++ {
			args = append(args, keyOf(i))
		}
	case "insert":
		var tuples []string
		for i := 0; i < n; i++ {
			if sc.Key {
				tuples = append(tuples, "(?, ?)")
				args = append(args, vals[i], markValue(sc, i))
			} else {
				tuples = append(tuples, "(?, ?, ?)")
				args = append(args, int64(i+1), vals[i], markValue(sc, i))
			}
		}
		if sc.Key {
			q = fmt.Sprintf("INSERT INTO %s (%s, c_mark) VALUES %s", table, cd.name, strings.Join(tuples, ", "))
		} else {
			q = fmt.Sprintf("INSERT INTO %s (id, %s, c_mark) VALUES %s", table, cd.name, strings.Join(tuples, ", "))
		}
	}
	var xid string
	var p1err error
	_ = tm.WithGlobalTx(context.Background(), &tm.GtxConfig{Name: "undoc", Timeout: 30 * time.Second}, func(ctx context.Context) error {
		xid = tm.GetXID(ctx)
		res, detail := guard(func() error {
			_, err := lab.DB.ExecContext(ctx, q, args...)
			return err
		})
		if res != "ok" {
			p1err = fmt.Errorf("%s: %s", res, detail)
			return p1err
		}
		return errors.New("business decides to roll back")
	})
	if p1err != nil {
		// phase one itself failed (image building, statement form): C16/C18 report that, not this check
		return abort("phase one failed: " + p1err.Error())
	}
	regs := lab.Registered(xid)
	if len(regs) != 1 {
		if lab.Srv.SnapshotHash(table) == h0 {
			return abort("the statement changed nothing, no branch")
		}
		return abort(fmt.Sprintf("%d branches registered", len(regs)))
	}
	bid := regs[0].Bid
	// what phase one wrote
	var ctxBytes, info []byte
	found := false
	for _, row := range lab.Srv.Snapshot("undo_log")["undo_log"] {
		if fmt.Sprint(row["xid"]) == xid && fmt.Sprint(row["branch_id"]) == fmt.Sprint(bid) {
			ctxBytes, info, found = unhex(row["context"]), unhex(row["rollback_info"]), true
		}
	}
	if !found {
		return abort("no undo_log row after a successful phase one")
	}
	pser, applied := sniff(info, xid)
	t.Add("Encode", "ser", pser, "res", "ok", "detail", "", "sig", sig)
	t.Add("Compress", "applied", applied, "res", "ok", "detail", fmt.Sprintf("payload %d bytes", len(info)), "sig", sig)
	logCtx := collection.DecodeMap(ctxBytes)
	t.Add("Stored", "cser", logCtx[serializerKey], "ccomp", logCtx[compressorTypeKey], "res", "ok", "ctx", string(ctxBytes), "sig", sig)

	// what rollback reads
	npanic := 0
	for _, rec := range lab.Coord.Log() {
		if rec.Kind == "PANIC" {
			npanic++
		}
	}
	// the configuration may have changed between phase one and the rollback (a rolling upgrade, a second service on
	// the same undo_log table): the context stored beside the log names the decoder, not today's settings
	if r.Intn(2) == 0 {
		saved := undo.UndoConfig
		if undo.UndoConfig.LogSerialization == "protobuf" {
			undo.UndoConfig.LogSerialization = "json"
		} else {
			undo.UndoConfig.LogSerialization = "protobuf"
		}
		if strings.EqualFold(undo.UndoConfig.CompressConfig.Type, "Gzip") {
			undo.UndoConfig.CompressConfig.Type = "Zstd"
		} else {
			undo.UndoConfig.CompressConfig.Type = "Gzip"
		}
		defer func() { undo.UndoConfig = saved }()
	}
	status, _ := lab.Rollback(xid, bid, 0)
	detail := ""
	for _, rec := range lab.Coord.Log() {
		if rec.Kind == "PANIC" {
			npanic--
			if npanic < 0 {
				status, detail = "panic", short(rec.Note)
			}
		}
	}
	restored := lab.Srv.SnapshotHash(table) == h0
	res := status
	if status == "rollbacked" && !restored {
		res = "rollbacked-not-restored"
	}
	t.Add("E2E", "restored", restored, "status", status, "res", res, "detail", detail, "sig", sig)
	return false
}

// ---------------------------------------------------------------------------------------------------

func main() {
	o := common.Parse()
	if o.Mode == "" {
		o.Mode = "parser"
	}
	raws, err := trace.ReadScenarios(o.Scenarios)
	if err != nil {
		common.Fatal("%v", err)
	}
	w, err := trace.NewWriter(o.Out)
	if err != nil {
		common.Fatal("%v", err)
	}
	w.SetBase(o.TraceBase())
	var e *e2eLab
	if o.Mode == "e2e" {
		e = openE2E(o)
	} else {
		tc.Quiet()
	}
	aborted := 0
	abortWhy := map[string]int{}
	idx := 0
	var pending []func()
	flush := func() {
		for _, f := range pending {
			f()
		}
		pending = nil
	}
	for _, raw := range raws {
		i := idx
		idx++
		if !o.Want(i) {
			continue
		}
		var sc scenario
		if err := json.Unmarshal(raw, &sc); err != nil {
			common.Fatal("scenario %d: %v", i, err)
		}
		r := o.Rand(int64(i))
		t := w.Begin(map[string]interface{}{"i": i, "sc": sc}, sc.sig())
		if o.Mode == "e2e" {
			if runE2E(e, t, sc, r) {
				aborted++
				abortWhy[sc.Jt+"/"+sc.Kind+"/"+sc.Cls]++
			}
		} else {
			// a window of branches is encoded before the first of them is read back
			tt := t
			if cont := runParser(t, sc, r); cont != nil {
				pending = append(pending, func() { cont(); tt.Close() })
			} else {
				pending = append(pending, tt.Close)
			}
			if len(pending) >= 4 {
				flush()
			}
			continue
		}
		t.Close()
	}
	flush()
	if o.Mode == "parser" {
		for _, name := range []string{"xml", "", "JSON", "fst"} {
			i := idx
			idx++
			if !o.Want(i) {
				continue
			}
			t := w.Begin(map[string]interface{}{"i": i, "unknownSerializer": name}, "unknown-serializer")
			runUnknownSerializer(t, name)
			t.Close()
		}
	}
	if err := w.Close(); err != nil {
		common.Fatal("%v", err)
	}
	if aborted > 0 && os.Getenv("VERIF_ABORTS") != "" {
		keys := make([]string, 0, len(abortWhy))
		for k := range abortWhy {
			keys = append(keys, k)
		}
		sort.Strings(keys)
		fmt.Fprintf(os.Stderr, "aborted classes: %s\n", strings.Join(keys, " "))
	}
	fmt.Printf("DRIVER-OK traces=%d scenarios=%d aborted=%d mode=%s\n", w.Count(), idx, aborted, o.Mode)
}
