// Driver for Rpc.tla (C14): N goroutines call the real GettyRemotingClient.SendSyncRequest at once; the
// coordinator stand-in holds every request and lets the replies arrive in the order, duplication and
// lateness TLC chose; foreign messages that reuse a pending id (a coordinator request, the listener's
// heartbeat and its pong) and the loss of the connection are part of the schedules.
//
// RpcRequestTimeout is a 20 s constant of the client.  Every scenario whose callers have not all
// returned when its schedule reaches "wave"/"loss"/the end is parked; all parked scenarios wait for
// their timeouts together, so the 20 s are paid once per run.
package main

import (
	"encoding/json"
	"fmt"
	"math/rand"
	"runtime"
	"sort"
	"strings"
	"sync"
	"sync/atomic"
	"time"

	"seata.apache.org/seata-go/pkg/protocol/branch"
	"seata.apache.org/seata-go/pkg/protocol/message"
	sgetty "seata.apache.org/seata-go/pkg/remoting/getty"
	"seata.apache.org/seata-go/pkg/rm"

	"verif/harness/common"
	"verif/harness/rmstub"
	"verif/harness/tc"
	"verif/harness/trace"
)

type step struct {
	Op string `json:"op"` // reply | late | dup | coordreq | coordreq0 | hb | loss | wave
	C  int    `json:"c,omitempty"`
}

type scenario struct {
	Cn    int    `json:"cn"`
	Steps []step `json:"steps"`
}

type caller struct {
	r    *run
	c    int
	name string
	kind int
	id   int32
	sent chan struct{}
	done chan struct{}
	mu   sync.Mutex
	hist []string
}

func (c *caller) note(s string) {
	c.mu.Lock()
	c.hist = append(c.hist, s)
	c.mu.Unlock()
}

func (c *caller) history() string {
	c.mu.Lock()
	defer c.mu.Unlock()
	return strings.Join(c.hist, "+")
}

type delivery struct {
	id   int32
	kind string
	sig  string
	done chan struct{}
}

type run struct {
	i        int
	sc       scenario
	t        *trace.T
	callers  []*caller
	pos      int
	dmu      sync.Mutex
	dels     []*delivery
	lastSend time.Time
	parked   bool
	skipped  bool
	seq      bool // start the callers one after the other (ids in caller order)
	misc     *caller // carrier of the history of messages that belong to no caller
	extra    []int32 // ids of coordinator requests that collide with nothing
}

var (
	coord    *tc.TC
	curSess  atomic.Pointer[tc.Session]
	byName   sync.Map // payload name -> *caller
	hbTarget atomic.Int32
	hbRun    atomic.Pointer[run]
	lastHB   atomic.Int32
	stuckAll int64
	skippedN int64
)

const (
	grace       = 100 * time.Millisecond
	rpcTimeout  = 20 * time.Second
	timeoutSlop = 15 * time.Second
)

func okRes(tag string) message.AbstractTransactionResponse {
	return message.AbstractTransactionResponse{AbstractResultMessage: message.AbstractResultMessage{ResultCode: message.ResultCodeSuccess, Msg: tag}}
}

// four request kinds with their response types; the response carries the request's payload name in Msg
func makeReq(kind int, name string) interface{} {
	switch kind % 4 {
	case 0:
		return message.GlobalBeginRequest{TransactionName: name, Timeout: 60 * time.Second}
	case 1:
		return message.BranchRegisterRequest{Xid: name, BranchType: branch.BranchTypeAT, ResourceId: "r", LockKey: "t:1"}
	case 2:
		return message.GlobalStatusRequest{AbstractGlobalEndRequest: message.AbstractGlobalEndRequest{Xid: name}}
	default:
		return message.GlobalLockQueryRequest{BranchRegisterRequest: message.BranchRegisterRequest{Xid: name, ResourceId: "r", LockKey: "t:1"}}
	}
}

func makeResp(kind int, name string) interface{} {
	switch kind % 4 {
	case 0:
		return message.GlobalBeginResponse{AbstractTransactionResponse: okRes(name), Xid: "10.0.0.1:8091:77"}
	case 1:
		return message.BranchRegisterResponse{AbstractTransactionResponse: okRes(name), BranchId: 77}
	case 2:
		return message.GlobalStatusResponse{AbstractGlobalEndResponse: message.AbstractGlobalEndResponse{AbstractTransactionResponse: okRes(name), GlobalStatus: message.GlobalStatusBegin}}
	default:
		return message.GlobalLockQueryResponse{AbstractTransactionResponse: okRes(name), Lockable: true}
	}
}

func nameOf(body interface{}) (string, int, bool) {
	switch b := body.(type) {
	case message.GlobalBeginRequest:
		return b.TransactionName, 0, true
	case message.BranchRegisterRequest:
		return b.Xid, 1, true
	case message.GlobalStatusRequest:
		return b.Xid, 2, true
	case message.GlobalLockQueryRequest:
		return b.Xid, 3, true
	}
	return "", 0, false
}

func msgOf(resp interface{}) (string, bool) {
	switch b := resp.(type) {
	case message.GlobalBeginResponse:
		return b.Msg, true
	case message.BranchRegisterResponse:
		return b.Msg, true
	case message.GlobalStatusResponse:
		return b.Msg, true
	case message.GlobalLockQueryResponse:
		return b.Msg, true
	}
	return "", false
}

func classify(resp interface{}, err error, name string) string {
	if err != nil {
		if strings.Contains(err.Error(), "timeout") {
			return "timeout"
		}
		return "err"
	}
	if m, ok := msgOf(resp); ok && m == name {
		return "own"
	}
	return "other" // somebody else's reply, a message of a foreign kind, or nothing at all
}

// the coordinator: called synchronously inside the client's WritePkg
func script(kind string, m tc.Msg) (tc.Reply, bool) {
	if hb, ok := m.Rpc.Body.(message.HeartBeatMessage); ok && hb.Ping {
		id := m.Rpc.ID
		lastHB.Store(id)
		if tgt := hbTarget.Load(); tgt != 0 && id == tgt {
			if r := hbRun.Load(); r != nil {
				r.t.Add("Heartbeat", "id", int(id), "sig", "hb")
			}
			return tc.Reply{}, true // the pong is delivered by the scenario
		}
		return tc.Reply{Body: message.HeartBeatMessagePong}, true
	}
	name, k, ok := nameOf(m.Rpc.Body)
	if !ok {
		return tc.Reply{}, false
	}
	if strings.HasPrefix(name, "fresh/") {
		return tc.Reply{Body: makeResp(k, name)}, true
	}
	if strings.HasPrefix(name, "async/") {
		// a request nobody waits for whose reply never comes: held for ever; its id is remembered so that the
		// futures table can be inspected after the timeout
		if v, ok := asyncRuns.Load(name); ok {
			r := v.(*run)
			r.dmu.Lock()
			r.extra = append(r.extra, m.Rpc.ID)
			r.dmu.Unlock()
		}
		return tc.Reply{}, true
	}
	if v, ok := byName.Load(name); ok {
		c := v.(*caller)
		c.id = m.Rpc.ID
		c.r.t.Add("Send", "c", c.c, "id", int(c.id), "sig", "send")
		close(c.sent)
		return tc.Reply{}, true // held: the scenario decides when (and whether) the reply arrives
	}
	return tc.Reply{}, false
}

func wait(ch chan struct{}, d time.Duration) bool {
	select {
	case <-ch:
		return true
	default:
	}
	select {
	case <-ch:
		return true
	case <-time.After(d):
		return false
	}
}

// asyncRuns: name of a shadow asynchronous request -> its run
var asyncRuns sync.Map

func (r *run) start() {
	r.t.Add("Start", "cn", r.sc.Cn, "sig", "start")
	for _, st := range r.sc.Steps {
		if st.Op == "wave" {
			// the scenario waits for the request timeout anyway: next to the callers one asynchronous request
			// (SendAsyncRequest - the path RegisterTM takes on every new session) is sent and never answered;
			// once the timeout is over it must have left the futures table like everything else
			name := fmt.Sprintf("async/%d", r.i)
			asyncRuns.Store(name, r)
			_ = sgetty.GetGettyRemotingClient().SendAsyncRequest(makeReq(r.i, name))
			break
		}
	}
	for _, c := range r.callers {
		c := c
		go func() {
			resp, err := sgetty.GetGettyRemotingClient().SendSyncRequest(makeReq(c.kind, c.name))
			v := classify(resp, err, c.name)
			r.t.Add("Return", "c", c.c, "v", v, "sig", v+":"+c.history())
			c.note(v)
			close(c.done)
		}()
		if r.seq {
			wait(c.sent, 3*time.Second)
		}
	}
	for _, c := range r.callers {
		if !wait(c.sent, 3*time.Second) {
			r.t.Add("NotSent", "c", c.c, "sig", "notsent")
		}
	}
	r.lastSend = time.Now()
}

// deliver hands msg to the client's dispatch on a goroutine of its own, as getty does
func (r *run) deliver(ev, kind string, c *caller, msg message.RpcMessage) {
	d := &delivery{id: msg.ID, kind: kind, sig: kind + ":" + c.history(), done: make(chan struct{})}
	r.dmu.Lock()
	r.dels = append(r.dels, d)
	r.dmu.Unlock()
	r.t.Add(ev, "id", int(msg.ID), "kind", kind, "sig", d.sig)
	c.note(kind)
	s := curSess.Load()
	go func() {
		defer close(d.done)
		defer func() {
			if p := recover(); p != nil {
				r.t.Add("Panic", "id", int(d.id), "kind", kind, "sig", d.sig)
			}
		}()
		s.Deliver(msg)
		r.t.Add("DeliveryReturned", "id", int(d.id), "kind", kind, "sig", d.sig)
	}()
	wait(d.done, grace)
}

// advance executes schedule steps up to (not including) the next "wave"/"loss" or the end
func (r *run) advance() {
	for r.pos < len(r.sc.Steps) {
		st := r.sc.Steps[r.pos]
		if st.Op == "wave" || st.Op == "loss" {
			return
		}
		r.pos++
		if st.Op == "coordreq0" {
			// a coordinator request with an id of the coordinator's own id space that no client request uses:
			// the client's response to it must not leave anything behind either
			id := int32(1<<24 + r.i*4 + len(r.extra))
			r.extra = append(r.extra, id)
			body := message.BranchCommitRequest{AbstractBranchEndRequest: message.AbstractBranchEndRequest{
				Xid: "10.0.0.1:8091:98", BranchId: int64(id), BranchType: branch.BranchTypeTCC, ResourceId: "c14", ApplicationData: []byte("{}")}}
			r.deliver("CoordReq", "coordreq0", r.misc, message.RpcMessage{ID: id, Type: message.GettyRequestTypeRequestSync, Codec: 1, Body: body})
			continue
		}
		c := r.callers[st.C-1]
		switch st.Op {
		case "reply", "late", "dup":
			r.deliver("Reply", st.Op, c, message.RpcMessage{ID: c.id, Type: message.GettyRequestTypeResponse, Codec: 1, Body: makeResp(c.kind, c.name)})
			wait(c.done, grace)
		case "coordreq":
			// a phase-two request of the coordinator whose message id (from the coordinator's own counter)
			// equals the id of the pending request; the stub manager answers at once and the client
			// responds with the same id
			body := message.BranchCommitRequest{AbstractBranchEndRequest: message.AbstractBranchEndRequest{
				Xid: "10.0.0.1:8091:99", BranchId: int64(c.id), BranchType: branch.BranchTypeTCC, ResourceId: "c14", ApplicationData: []byte("{}")}}
			r.deliver("CoordReq", "coordreq", c, message.RpcMessage{ID: c.id, Type: message.GettyRequestTypeRequestSync, Codec: 1, Body: body})
		case "hb":
			// the listener's heartbeat ids come from its own counter: let it run up to the pending id
			if lastHB.Load() >= c.id {
				r.skipped = true
				return
			}
			hbRun.Store(r)
			hbTarget.Store(c.id)
			for lastHB.Load() < c.id {
				before := lastHB.Load()
				sgetty.GetGettyClientHandlerInstance().OnCron(curSess.Load())
				cur := lastHB.Load()
				if cur == before {
					r.skipped = true // the heartbeat did not go out
					break
				}
				if cur != c.id {
					// an ordinary heartbeat on the way: its pong (sent by the stand-in at once) must have been
					// processed before the scenario goes on
					for k := 0; k < 2000 && sgetty.GetGettyRemotingClient().GetMessageFuture(cur) != nil; k++ {
						time.Sleep(500 * time.Microsecond)
					}
				}
			}
			hbTarget.Store(0)
			if r.skipped {
				return
			}
			if lastHB.Load() != c.id {
				// the heartbeat ids jumped over the pending id (they do not come from a counter of their own):
				// no collision can be produced, the schedule goes on without one
				continue
			}
			r.deliver("Pong", "pong", c, message.RpcMessage{ID: c.id, Type: message.GettyRequestTypeHeartbeatResponse, Codec: 1, Body: message.HeartBeatMessagePong})
		}
	}
}

func (r *run) allReturned() bool {
	for _, c := range r.callers {
		select {
		case <-c.done:
		default:
			return false
		}
	}
	return true
}

func (r *run) quiesce(patience time.Duration) {
	r.dmu.Lock()
	dels := append([]*delivery(nil), r.dels...)
	r.dmu.Unlock()
	parked := 0
	for _, d := range dels {
		if !wait(d.done, patience) {
			parked++
			atomic.AddInt64(&stuckAll, 1)
			r.t.Add("DeliveryStuck", "id", int(d.id), "kind", d.kind, "sig", d.sig)
		}
	}
	count := func() int {
		n := 0
		for _, c := range r.callers {
			if sgetty.GetGettyRemotingClient().GetMessageFuture(c.id) != nil {
				n++
			}
		}
		r.dmu.Lock()
		extra := append([]int32(nil), r.extra...)
		r.dmu.Unlock()
		for _, id := range extra {
			if sgetty.GetGettyRemotingClient().GetMessageFuture(id) != nil {
				n++
			}
		}
		return n
	}
	// the timers of requests nobody waits for fire on goroutines of their own: "after the timeout" is given two
	// seconds of grace before an entry counts as left behind
	pending := count()
	for dl := time.Now().Add(2 * time.Second); pending > 0 && time.Now().Before(dl); pending = count() {
		time.Sleep(20 * time.Millisecond)
	}
	// a fresh request must still be served
	fresh := false
	fd := make(chan bool, 1)
	name := fmt.Sprintf("fresh/%d", r.i)
	go func() {
		resp, err := sgetty.GetGettyRemotingClient().SendSyncRequest(makeReq(r.i, name))
		fd <- classify(resp, err, name) == "own"
	}()
	select {
	case fresh = <-fd:
	case <-time.After(3 * time.Second):
	}
	ops := map[string]bool{}
	for _, s := range r.sc.Steps {
		ops[s.Op] = true
	}
	var ol []string
	for o := range ops {
		ol = append(ol, o)
	}
	sort.Strings(ol)
	pl := func(n int) string {
		if n == 0 {
			return "0"
		}
		return "+"
	}
	r.t.Add("Quiesce", "pending", pending, "parked", parked, "fresh", fresh,
		"sig", fmt.Sprintf("pending=%s/parked=%s/fresh=%v:%s", pl(pending), pl(parked), fresh, strings.Join(ol, ",")))
	r.t.Close()
	for _, c := range r.callers {
		byName.Delete(c.name)
	}
}

// first part of a scenario: everything before the timeouts
func (r *run) first() {
	r.start()
	r.advance()
	if r.skipped {
		atomic.AddInt64(&skippedN, 1)
		return
	}
	if r.pos >= len(r.sc.Steps) && r.allReturned() {
		r.quiesce(time.Second)
		return
	}
	r.parked = true
}

// second part: after the timeouts have passed
func (r *run) second() {
	deadline := r.lastSend.Add(rpcTimeout + timeoutSlop)
	for _, c := range r.callers {
		if !wait(c.done, time.Until(deadline)) {
			r.t.Add("Hang", "c", c.c, "sig", "hang:"+c.history())
		}
	}
	if r.pos < len(r.sc.Steps) && r.sc.Steps[r.pos].Op == "wave" {
		r.pos++
	}
	r.advance()
	r.quiesce(50 * time.Millisecond)
}

func randomScenario(rnd *rand.Rand) scenario {
	n := 4 + rnd.Intn(5)
	sc := scenario{Cn: n}
	perm := rnd.Perm(n)
	ndrop := 0
	if rnd.Intn(3) > 0 {
		ndrop = 1 + rnd.Intn(3)
	}
	dropped := perm[:ndrop]
	answered := perm[ndrop:]
	var replied []int
	for _, c := range answered {
		if rnd.Intn(12) == 0 {
			sc.Steps = append(sc.Steps, step{Op: "coordreq0"})
		}
		if rnd.Intn(6) == 0 {
			sc.Steps = append(sc.Steps, step{"coordreq", c + 1})
		}
		sc.Steps = append(sc.Steps, step{"reply", c + 1})
		replied = append(replied, c)
		if rnd.Intn(4) == 0 {
			d := replied[rnd.Intn(len(replied))]
			sc.Steps = append(sc.Steps, step{"dup", d + 1})
		}
	}
	if ndrop > 0 {
		for _, c := range dropped {
			if rnd.Intn(5) == 0 {
				sc.Steps = append(sc.Steps, step{"coordreq", c + 1})
			}
		}
		loss := rnd.Intn(8) == 0
		if loss {
			sc.Steps = append(sc.Steps, step{Op: "loss"})
		}
		sc.Steps = append(sc.Steps, step{Op: "wave"})
		if !loss {
			for _, c := range dropped {
				if rnd.Intn(2) == 0 {
					sc.Steps = append(sc.Steps, step{"late", c + 1})
					if rnd.Intn(3) == 0 {
						sc.Steps = append(sc.Steps, step{"dup", c + 1})
					}
				}
			}
		}
	}
	return sc
}

func classOf(sc scenario) string {
	var b strings.Builder
	fmt.Fprintf(&b, "n=%d", sc.Cn)
	for _, s := range sc.Steps {
		if s.C > 0 {
			fmt.Fprintf(&b, " %s%d", s.Op, s.C)
		} else {
			b.WriteString(" " + s.Op)
		}
	}
	return b.String()
}

func has(sc scenario, op string) bool {
	for _, s := range sc.Steps {
		if s.Op == op {
			return true
		}
	}
	return false
}

func parkedGoroutines() int {
	buf := make([]byte, 64<<20)
	n := runtime.Stack(buf, true)
	cnt := 0
	for _, g := range strings.Split(string(buf[:n]), "\n\n") {
		if strings.Contains(g, "NotifyRpcMessageResponse") {
			cnt++
		}
	}
	return cnt
}

func main() {
	o := common.Parse()
	tc.InitClient(tc.DefaultConfig())
	coord = tc.NewTC("10.0.0.1:8091")
	coord.Script = script
	curSess.Store(coord.OpenSession("s1"))
	time.Sleep(50 * time.Millisecond) // the RegisterTM the client sends on open
	rmstub.Install(func(mgr branch.BranchType, op string, res rm.BranchResource) (branch.BranchStatus, error) {
		return branch.BranchStatusPhasetwoCommitted, nil
	})
	fut0, _ := sgetty.VerifPendingFutures()

	var scs []scenario
	if o.Scenarios != "" {
		raws, err := trace.ReadScenarios(o.Scenarios)
		if err != nil {
			common.Fatal("%v", err)
		}
		for i, raw := range raws {
			var sc scenario
			if err := json.Unmarshal(raw, &sc); err != nil {
				common.Fatal("scenario %d: %v", i, err)
			}
			scs = append(scs, sc)
		}
	}
	nTLC := len(scs)
	// a coordinator request whose id collides with nothing (ids of the coordinator's own id space)
	scs = append(scs,
		scenario{Cn: 1, Steps: []step{{Op: "coordreq0"}, {"reply", 1}}},
		scenario{Cn: 2, Steps: []step{{"reply", 1}, {Op: "coordreq0"}, {"reply", 2}}},
		scenario{Cn: 1, Steps: []step{{"reply", 1}, {Op: "coordreq0"}}})
	nRand := 100
	if o.Thorough() {
		nRand = 1000
	}
	rnd := o.Rand(14)
	for k := 0; k < nRand; k++ {
		scs = append(scs, randomScenario(rnd))
	}
	w, err := trace.NewWriter(o.Out)
	if err != nil {
		common.Fatal("%v", err)
	}
	var hbRuns, rest, all []*run
	for i, sc := range scs {
		if !o.Want(i) {
			continue
		}
		r := &run{i: i, sc: sc, misc: &caller{}}
		r.t = w.Begin(map[string]interface{}{"i": i, "sc": sc}, classOf(sc))
		vr := rand.New(rand.NewSource(o.Seed*104729 + int64(i)))
		for c := 1; c <= sc.Cn; c++ {
			cl := &caller{r: r, c: c, name: fmt.Sprintf("c14/%d/%d/%d", o.Seed, i, c), kind: vr.Intn(4),
				sent: make(chan struct{}), done: make(chan struct{})}
			byName.Store(cl.name, cl)
			r.callers = append(r.callers, cl)
		}
		r.seq = vr.Intn(2) == 0
		if has(sc, "hb") {
			r.seq = true
			hbRuns = append(hbRuns, r)
		} else {
			rest = append(rest, r)
		}
		all = append(all, r)
	}
	t0 := time.Now()
	// 1. scenarios with a heartbeat collision, one after the other (the heartbeat counter only grows)
	for _, r := range hbRuns {
		r.first()
	}
	// 2. everything else
	pool := func(rs []*run, f func(r *run)) {
		sem := make(chan struct{}, 128)
		var wg sync.WaitGroup
		for _, r := range rs {
			wg.Add(1)
			sem <- struct{}{}
			go func(r *run) {
				defer wg.Done()
				defer func() { <-sem }()
				f(r)
			}(r)
		}
		wg.Wait()
	}
	pool(rest, func(r *run) { r.first() })
	tFirst := time.Since(t0)
	// 3. the connection is lost (once, for every scenario that asks for it); the client gets a new one
	var parked []*run
	lossN := 0
	for _, r := range all {
		if r.parked {
			parked = append(parked, r)
			if r.pos < len(r.sc.Steps) && r.sc.Steps[r.pos].Op == "loss" {
				lossN++
			}
		}
	}
	if lossN > 0 {
		for _, r := range parked {
			if r.pos < len(r.sc.Steps) && r.sc.Steps[r.pos].Op == "loss" {
				r.pos++
				r.t.Add("ConnLost", "sig", "loss")
				for _, c := range r.callers {
					select {
					case <-c.done:
					default:
						c.note("loss")
					}
				}
			}
		}
		curSess.Load().Lose()
		curSess.Store(coord.OpenSession("s2"))
		time.Sleep(50 * time.Millisecond)
	}
	// 4. the timeouts pass for all parked scenarios together; then late replies and the final look
	pool(parked, func(r *run) { r.second() })
	if err := w.Close(); err != nil {
		common.Fatal("%v", err)
	}
	fut1, _ := sgetty.VerifPendingFutures()
	fmt.Printf("DRIVER-OK traces=%d scenarios=%d tlc=%d random=%d parked=%d loss=%d skipped=%d first=%.1fs total=%.1fs stuck-deliveries=%d goroutines-in-NotifyRpcMessageResponse=%d futures-table=%d->%d\n",
		w.Count(), len(scs), nTLC, nRand, len(parked), lossN, atomic.LoadInt64(&skippedN), tFirst.Seconds(), time.Since(t0).Seconds(),
		atomic.LoadInt64(&stuckAll), parkedGoroutines(), fut0, fut1)
}
