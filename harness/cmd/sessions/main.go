// Driver for Sessions.tla (C19): session selection and reconnection.
//
// Modes (-mode):
//
//	select-direct  loadbalance.Select(policy, *sync.Map, xid) called directly on tables of fake sessions
//	               (all five policies);
//	select-client  the same scenarios through the real client: fake sessions registered by the real OnOpen,
//	               closed by SetClosed (closed, still registered) or lost through the real OnClose, requests
//	               sent with GettyRemotingClient.SendSyncRequest; the chosen session is the one whose
//	               WritePkg saw the request;
//	reconnect      real client + AT resource (proxy over memsql) + TCC resource; the coordinator session is
//	               lost and re-opened; recorded: the announcements that arrive per session, whether a new
//	               global transaction begins, whether phase two of earlier branches is answered.
//
// The client and the consistent-hash balancer keep their state in package globals, so the parent process
// only plans and collects: scenarios are executed by child processes of this binary (-child), one policy per
// child; scenarios whose outcome depends on process-wide state (consistent hash: ring built once per
// process; selections with no open session; reconnects) get a child of their own.  A child that dies is a
// recorded event ("Crash"), not an infrastructure failure.
package main

import (
	"bufio"
	"context"
	"encoding/json"
	"errors"
	"flag"
	"fmt"
	"io"
	"os"
	"os/exec"
	"runtime"
	"sort"
	"strings"
	"sync"
	"time"

	getty "github.com/apache/dubbo-getty"

	"seata.apache.org/seata-go/pkg/protocol/branch"
	"seata.apache.org/seata-go/pkg/protocol/message"
	sgetty "seata.apache.org/seata-go/pkg/remoting/getty"
	"seata.apache.org/seata-go/pkg/remoting/loadbalance"
	"seata.apache.org/seata-go/pkg/rm"
	"seata.apache.org/seata-go/pkg/rm/tcc"
	"seata.apache.org/seata-go/pkg/tm"

	"verif/harness/atlab"
	"verif/harness/common"
	"verif/harness/tc"
	"verif/harness/trace"
)

const (
	polXID = "XID"
	polRnd = "RandomLoadBalance"
	polRR  = "RoundRobinLoadBalance"
	polCH  = "ConsistentHashLoadBalance"
	polLA  = "LeastActiveLoadBalance"
)

var allPolicies = []string{polXID, polRnd, polRR, polCH, polLA}

var addrOf = map[string]string{"a1": "10.0.0.1:8091", "a2": "10.0.0.2:8091", "a3": "10.0.0.3:8091", "a9": "10.0.0.9:8091"}

type xidT struct {
	Form string `json:"form"`
	Addr string `json:"addr"`
}

type sessT struct {
	Addr string `json:"addr"`
	Open bool   `json:"open"`
	Reg  bool   `json:"reg"`
}

type step struct {
	Op    string  `json:"op"`
	Sess  []sessT `json:"sess,omitempty"`
	Xid   *xidT   `json:"xid,omitempty"`
	ID    int     `json:"id,omitempty"`
	Addr  string  `json:"addr,omitempty"`
	By    bool    `json:"by,omitempty"`
	Shift int     `json:"shift,omitempty"`
	Kind  string  `json:"kind,omitempty"`
	// reopen: resources (abstract names) whose re-announcement on the new session the transport fails
	FailAnn []string `json:"failann,omitempty"`
}

type scenario struct {
	Part  string `json:"part"`
	Steps []step `json:"steps"`
}

func (sc scenario) nsel() int {
	n := 0
	for _, s := range sc.Steps {
		if s.Op == "select" {
			n++
		}
	}
	return n
}

// noneOpenSelect reports whether some selection of the scenario is made while no session is live
func (sc scenario) noneOpenSelect() bool {
	tbl := map[int]sessT{}
	for _, s := range sc.Steps {
		switch s.Op {
		case "init":
			for i, e := range s.Sess {
				tbl[i+1] = e
			}
		case "open":
			tbl[s.ID] = sessT{Addr: s.Addr, Open: true, Reg: true}
		case "close":
			e := tbl[s.ID]
			e.Open = false
			tbl[s.ID] = e
		case "lose":
			e := tbl[s.ID]
			e.Open, e.Reg = false, false
			tbl[s.ID] = e
		case "select":
			live := 0
			for _, e := range tbl {
				if e.Open && e.Reg {
					live++
				}
			}
			if live == 0 {
				return true
			}
		}
	}
	return false
}

// ------------------------------------------------------------------------------------------- parent

type item struct {
	i      int
	policy string
	raw    json.RawMessage
	sc     scenario
}

type result struct {
	events []trace.Ev
	class  string
}

type childLine struct {
	I     int      `json:"i"`
	Ev    trace.Ev `json:"ev,omitempty"`
	End   bool     `json:"end,omitempty"`
	Class string   `json:"class,omitempty"`
	Fatal string   `json:"fatal,omitempty"`
}

func isolated(mode string, it item) bool {
	switch mode {
	case "reconnect":
		return true
	case "select-direct":
		return it.policy == polCH
	default:
		return it.policy == polCH || it.sc.noneOpenSelect()
	}
}

func main() {
	child := flag.Bool("child", false, "run as a child: scenarios on stdin, events on stdout")
	policy := flag.String("policy", "", "load-balance policy of this child")
	o := common.Parse()
	if *child {
		runChild(o, *policy)
		return
	}
	if o.Mode == "" {
		o.Mode = "select-direct"
	}
	raws, err := trace.ReadScenarios(o.Scenarios)
	if err != nil {
		common.Fatal("%v", err)
	}
	w, err := trace.NewWriter(o.Out)
	if err != nil {
		common.Fatal("%v", err)
	}
	w.SetBase(o.TraceBase())
	pols := allPolicies
	if p := os.Getenv("LB"); p != "" {
		pols = strings.Split(p, ",")
	}
	var items []item
	skipped := 0
	for i, raw := range raws {
		if !o.Want(i) {
			continue
		}
		var sc scenario
		if err := json.Unmarshal(raw, &sc); err != nil {
			common.Fatal("scenario %d: %v", i, err)
		}
		switch o.Mode {
		case "select-direct", "select-client":
			if sc.Part != "sel" {
				continue
			}
			for _, p := range pols {
				// quick tier: the per-scenario processes of the consistent-hash policy are sampled by seed
				if p == polCH && !o.Thorough() && o.Only == nil {
					k := int64(2)
					if o.Mode == "select-client" {
						k = 3
					} else if sc.nsel() < 2 {
						k = 8
					}
					if mix(int64(i), o.Seed)%k != 0 {
						skipped++
						continue
					}
				}
				// ... and so are the per-scenario processes of selections made while no session is open
				if p != polCH && o.Mode == "select-client" && !o.Thorough() && o.Only == nil && sc.noneOpenSelect() &&
					mix(int64(i)+7919, o.Seed)%4 != 0 {
					skipped++
					continue
				}
				items = append(items, item{i: i, policy: p, raw: raw, sc: sc})
			}
		case "reconnect":
			if sc.Part != "rc" {
				continue
			}
			p := polXID
			if len(sc.Steps) > 0 && sc.Steps[0].By {
				p = polRR // deterministic placement of requests over two live sessions
			}
			items = append(items, item{i: i, policy: p, raw: raw, sc: sc})
		default:
			common.Fatal("unknown -mode %q", o.Mode)
		}
	}
	// partition into chunks: one child process per chunk
	var chunks [][]int
	shared := map[string][]int{}
	for k, it := range items {
		if isolated(o.Mode, it) {
			chunks = append(chunks, []int{k})
		} else {
			shared[it.policy] = append(shared[it.policy], k)
		}
	}
	for _, p := range allPolicies {
		ks := shared[p]
		per := (len(ks) + 3) / 4
		for len(ks) > 0 {
			n := min(per, len(ks))
			chunks = append(chunks, ks[:n])
			ks = ks[n:]
		}
	}
	results := make([]result, len(items))
	workers := runtime.NumCPU()
	if workers > 16 {
		workers = 16
	}
	if o.Mode == "reconnect" && workers > 8 {
		workers = 8
	}
	sem := make(chan struct{}, workers)
	var wg sync.WaitGroup
	var nchild, ncrash int
	var cmu sync.Mutex
	for _, ch := range chunks {
		wg.Add(1)
		sem <- struct{}{}
		go func(ch []int) {
			defer wg.Done()
			defer func() { <-sem }()
			c, k := runChunk(o, items, ch, results)
			cmu.Lock()
			nchild += c
			ncrash += k
			cmu.Unlock()
		}(ch)
	}
	wg.Wait()
	for k, it := range items {
		info := map[string]interface{}{"i": it.i, "policy": it.policy, "mode": o.Mode, "sc": it.sc}
		t := w.Begin(info, results[k].class)
		for _, e := range results[k].events {
			ev, _ := e["ev"].(string)
			var kv []interface{}
			for f, v := range e {
				if f != "ev" {
					kv = append(kv, f, v)
				}
			}
			t.Add(ev, kv...)
		}
		t.Close()
	}
	if err := w.Close(); err != nil {
		common.Fatal("%v", err)
	}
	fmt.Printf("DRIVER-OK traces=%d scenarios=%d children=%d crashes=%d sampled-out=%d\n", w.Count(), len(raws), nchild, ncrash, skipped)
}

// runChunk executes the items of one chunk in a child process; when the child dies or hangs the scenario in
// progress gets a Crash/Hang event and the rest of the chunk continues in a new child.
func runChunk(o *common.Opts, items []item, ch []int, results []result) (children, crashes int) {
	self, err := os.Executable()
	if err != nil {
		common.Fatal("%v", err)
	}
	pos := 0
	for pos < len(ch) {
		children++
		pol := items[ch[pos]].policy
		cmd := exec.Command(self, "-child", "-policy", pol, "-mode", o.Mode, "-tier", o.Tier,
			"-seed", fmt.Sprint(o.Seed), "-prop", o.Prop, "-out", os.DevNull)
		stdin, _ := cmd.StdinPipe()
		stdout, _ := cmd.StdoutPipe()
		var stderr strings.Builder
		cmd.Stderr = &limitedWriter{b: &stderr, n: 1 << 16}
		if err := cmd.Start(); err != nil {
			common.Fatal("start child: %v", err)
		}
		go func(from int) {
			enc := json.NewEncoder(stdin)
			for _, k := range ch[from:] {
				enc.Encode(map[string]interface{}{"k": k, "i": items[k].i, "sc": items[k].raw})
			}
			stdin.Close()
		}(pos)
		lines := make(chan childLine, 256)
		go func() {
			defer close(lines)
			rd := bufio.NewReaderSize(stdout, 1<<20)
			for {
				b, err := rd.ReadBytes('\n')
				if len(b) > 1 {
					var ln childLine
					if json.Unmarshal(b, &ln) == nil {
						lines <- ln
					}
				}
				if err != nil {
					return
				}
			}
		}()
		idle := 60 * time.Second
		failed := ""
	loop:
		for {
			select {
			case ln, ok := <-lines:
				if !ok {
					break loop
				}
				if ln.Fatal != "" {
					cmd.Process.Kill()
					common.Fatal("child (%s, scenario %d): %s", pol, items[ch[min(pos, len(ch)-1)]].i, ln.Fatal)
				}
				if pos >= len(ch) {
					continue
				}
				k := ch[pos]
				if ln.End {
					results[k].class = ln.Class
					pos++
				} else if ln.Ev != nil {
					results[k].events = append(results[k].events, ln.Ev)
				}
			case <-time.After(idle):
				failed = "Hang"
				cmd.Process.Kill()
				break loop
			}
		}
		werr := cmd.Wait()
		if pos < len(ch) {
			// the child ended before finishing the chunk
			if failed == "" {
				failed = "Crash"
			}
			k := ch[pos]
			if len(results[k].events) == 0 {
				// it never got as far as the first event: infrastructure, not behaviour
				common.Fatal("child (%s) died before scenario %d started: %v\n%s", pol, items[k].i, werr, tail(stderr.String(), 3000))
			}
			crashes++
			results[k].events = append(results[k].events, trace.Ev{"ev": failed,
				"sig": fmt.Sprintf("%s/%s/%s", modeTag(o.Mode), pol, crashClass(stderr.String()))})
			if results[k].class == "" {
				results[k].class = modeTag(o.Mode) + "/" + pol + " " + strings.ToLower(failed)
			}
			pos++
		}
	}
	return
}

type limitedWriter struct {
	b *strings.Builder
	n int
}

func (l *limitedWriter) Write(p []byte) (int, error) {
	if l.b.Len() < l.n {
		l.b.Write(p)
	}
	return len(p), nil
}

func tail(s string, n int) string {
	if len(s) > n {
		return s[len(s)-n:]
	}
	return s
}

// crashClass extracts the class of a Go crash from the child's stderr ("panic: ..." first line and the
// first frame inside the repository), without addresses.
func crashClass(stderr string) string {
	cls := "unknown"
	lines := strings.Split(stderr, "\n")
	for k, ln := range lines {
		if strings.HasPrefix(ln, "panic: ") || strings.HasPrefix(ln, "fatal error: ") {
			cls = ln
			if j := strings.Index(cls, "[recovered]"); j > 0 {
				cls = cls[:j]
			}
			for _, f := range lines[k:] {
				f = strings.TrimSpace(f)
				if strings.HasPrefix(f, "seata.apache.org/seata-go/") {
					if j := strings.Index(f, "("); j > 0 {
						f = f[:j]
					}
					cls += " @" + strings.TrimPrefix(f, "seata.apache.org/seata-go/")
					break
				}
			}
			break
		}
	}
	cls = strings.Map(func(r rune) rune {
		if r == '"' || r == '\\' || r < 32 {
			return '_'
		}
		return r
	}, cls)
	if len(cls) > 160 {
		cls = cls[:160]
	}
	return cls
}

// mix spreads (scenario index, seed) so that sampling does not correlate with the enumeration order
func mix(i, seed int64) int64 {
	x := uint64(i)*0x9E3779B97F4A7C15 + uint64(seed)*0xC2B2AE3D27D4EB4F
	x ^= x >> 29
	x *= 0xBF58476D1CE4E5B9
	x ^= x >> 32
	return int64(x & 0x7fffffff)
}

func modeTag(mode string) string {
	switch mode {
	case "select-direct":
		return "direct"
	case "select-client":
		return "client"
	}
	return "rc"
}

// ------------------------------------------------------------------------------------------- child

type emitter struct {
	mu  sync.Mutex
	out *bufio.Writer
	i   int
}

func (e *emitter) line(v interface{}) {
	b, err := json.Marshal(v)
	if err != nil {
		panic(err)
	}
	e.mu.Lock()
	e.out.Write(b)
	e.out.WriteByte('\n')
	e.out.Flush()
	e.mu.Unlock()
}

func (e *emitter) Add(ev string, kv ...interface{}) {
	m := trace.Ev{"ev": ev}
	for k := 0; k+1 < len(kv); k += 2 {
		m[kv[k].(string)] = kv[k+1]
	}
	e.line(childLine{I: e.i, Ev: m})
}

func (e *emitter) fatal(f string, a ...interface{}) {
	e.line(childLine{I: e.i, Fatal: fmt.Sprintf(f, a...)})
	os.Exit(3)
}

func runChild(o *common.Opts, policy string) {
	em := &emitter{out: bufio.NewWriterSize(os.Stdout, 1<<16)}
	in := bufio.NewReaderSize(os.Stdin, 1<<20)
	var cli *clientLab
	for {
		b, err := in.ReadBytes('\n')
		if len(b) > 1 {
			var req struct {
				I  int      `json:"i"`
				Sc scenario `json:"sc"`
			}
			if e := json.Unmarshal(b, &req); e != nil {
				em.fatal("bad scenario line: %v", e)
			}
			em.i = req.I
			class := ""
			switch o.Mode {
			case "select-direct":
				class = runDirect(em, policy, req.Sc, o.Seed, req.I)
			case "select-client":
				if cli == nil {
					cli = newClientLab(policy)
				}
				class = cli.run(em, req.Sc, o.Seed, req.I)
			case "reconnect":
				class = runReconnect(em, policy, req.Sc, o, req.I)
			}
			em.line(childLine{I: req.I, End: true, Class: class})
		}
		if err != nil {
			if err != io.EOF {
				em.fatal("stdin: %v", err)
			}
			return
		}
	}
}

func absentTable() []sessT {
	t := make([]sessT, 4)
	for k := range t {
		t[k] = sessT{Addr: "none"}
	}
	return t
}

func concreteXid(x xidT, salt int64) string {
	id := 2000 + salt%5000
	switch x.Form {
	case "wf":
		return fmt.Sprintf("%s:%d", addrOf[x.Addr], id)
	case "two":
		return addrOf[x.Addr] // ip:port without an id
	case "four":
		return fmt.Sprintf("%s:%d:%d", addrOf[x.Addr], id, 7)
	}
	return ""
}

// xidClass: hit (an open registered session is connected to the xid's address) | miss | two | four | empty | none
func xidClass(x xidT, tbl []sessT) string {
	if x.Form != "wf" {
		return x.Form
	}
	for _, e := range tbl {
		if e.Open && e.Reg && e.Addr == x.Addr {
			return "hit"
		}
	}
	return "miss"
}

func nlive(tbl []sessT) int {
	n := 0
	for _, e := range tbl {
		if e.Open && e.Reg {
			n++
		}
	}
	return n
}

func rClass(r int, tbl []sessT) string {
	switch {
	case r == 0:
		return "nil"
	case r < 0:
		return "stale"
	}
	e := tbl[r-1]
	switch {
	case e.Open && e.Reg:
		return "live"
	case e.Reg:
		return "closed"
	}
	return "unreg"
}

// selSig: the class coordinates of a selection (level, policy, xid class, is any session live, what kind of
// session was chosen)
func selSig(level, pol string, x xidT, tbl []sessT, r int) string {
	return fmt.Sprintf("%s/%s/xid=%s/live=%d/r=%s", level, pol, xidClass(x, tbl), min(nlive(tbl), 1), rClass(r, tbl))
}

// ----------------------------------------------------------------------------- level (i): Select directly

func runDirect(em *emitter, pol string, sc scenario, seed int64, idx int) string {
	m := &sync.Map{}
	slots := map[int]*tc.Session{}
	tbl := absentTable()
	nsel := 0
	slotOf := func(s getty.Session) int {
		if s == nil {
			return 0
		}
		if p, ok := s.(*tc.Session); ok {
			if p == nil {
				return 0
			}
			for id, q := range slots {
				if q == p {
					return id
				}
			}
		}
		return -1
	}
	for _, st := range sc.Steps {
		switch st.Op {
		case "init":
			for k, e := range st.Sess {
				if e.Addr == "none" {
					continue
				}
				s := tc.NewSession(fmt.Sprintf("s%d", k+1), addrOf[e.Addr])
				slots[k+1] = s
				tbl[k] = e
				if e.Reg {
					m.Store(s, true)
				}
				s.SetClosed(!e.Open)
			}
			em.Add("Init", "part", "sel", "level", "direct", "policy", pol, "sess", append([]sessT(nil), tbl...), "sig", "init")
		case "open":
			s := tc.NewSession(fmt.Sprintf("s%d", st.ID), addrOf[st.Addr])
			slots[st.ID] = s
			tbl[st.ID-1] = sessT{Addr: st.Addr, Open: true}
			em.Add("Open", "id", st.ID, "addr", st.Addr, "sig", "open")
			m.Store(s, true)
			tbl[st.ID-1].Reg = true
			em.Add("Register", "id", st.ID, "sig", "register")
		case "close":
			slots[st.ID].SetClosed(true)
			tbl[st.ID-1].Open = false
			em.Add("Close", "id", st.ID, "sig", "close")
		case "lose":
			// what releaseSession does: out of the table, and closed
			m.Delete(slots[st.ID])
			slots[st.ID].SetClosed(true)
			tbl[st.ID-1].Open, tbl[st.ID-1].Reg = false, false
			em.Add("Release", "id", st.ID, "sig", "release")
		case "select":
			nsel++
			xid := concreteXid(*st.Xid, seed*131+int64(idx)*17+int64(nsel)*7)
			r, res := 0, "ok"
			func() {
				defer func() {
					if p := recover(); p != nil {
						res = "panic"
					}
				}()
				r = slotOf(loadbalance.Select(pol, m, xid))
			}()
			em.Add("Select", "xid", *st.Xid, "r", r, "res", res, "nth", nsel, "sig", selSig("direct", pol, *st.Xid, tbl, r))
			if pol == polCH {
				time.Sleep(2 * time.Millisecond) // the ring is refreshed by a goroutine the selection started
			}
		}
	}
	em.Add("End", "sig", "end")
	return fmt.Sprintf("direct/%s sel=%d steps=%d", pol, nsel, len(sc.Steps)-1-nsel)
}

// ----------------------------------------------------------------------------- level (ii): through the client

type wrec struct {
	sess *tc.Session
	kind string
	xid  string
}

type clientLab struct {
	policy string
	tcs    map[string]*tc.TC
	mu     sync.Mutex
	writes []wrec
	gen    int
}

func newClientLab(policy string) *clientLab {
	cfg := tc.DefaultConfig()
	cfg.LoadBalance = policy
	tc.InitClient(cfg)
	l := &clientLab{policy: policy, tcs: map[string]*tc.TC{}}
	for a, c := range addrOf {
		l.tcs[a] = tc.NewTC(c)
	}
	return l
}

func bodyXid(body interface{}) string {
	switch b := body.(type) {
	case message.GlobalCommitRequest:
		return b.Xid
	case message.GlobalRollbackRequest:
		return b.Xid
	case message.BranchRegisterRequest:
		return b.Xid
	case message.BranchReportRequest:
		return b.Xid
	case message.GlobalLockQueryRequest:
		return b.Xid
	case message.GlobalStatusRequest:
		return b.Xid
	}
	return ""
}

func (l *clientLab) newSession(addr, name string) *tc.Session {
	s := l.tcs[addr].NewSession(name)
	orig := s.OnWrite
	s.SetOnWrite(func(m tc.Msg) error {
		l.mu.Lock()
		l.writes = append(l.writes, wrec{sess: m.Session, kind: tc.Kind(m.Rpc.Body), xid: bodyXid(m.Rpc.Body)})
		l.mu.Unlock()
		return orig(m)
	})
	return s
}

func (l *clientLab) cursor() int { l.mu.Lock(); defer l.mu.Unlock(); return len(l.writes) }

func (l *clientLab) find(from int, pred func(w wrec) bool) *wrec {
	l.mu.Lock()
	defer l.mu.Unlock()
	for k := from; k < len(l.writes); k++ {
		if pred(l.writes[k]) {
			w := l.writes[k]
			return &w
		}
	}
	return nil
}

func (l *clientLab) wait(from int, pred func(w wrec) bool, d time.Duration) *wrec {
	end := time.Now().Add(d)
	for {
		if w := l.find(from, pred); w != nil {
			return w
		}
		if time.Now().After(end) {
			return nil
		}
		time.Sleep(200 * time.Microsecond)
	}
}

func request(kind int, xid string) interface{} {
	switch kind % 5 {
	case 0:
		return message.GlobalCommitRequest{AbstractGlobalEndRequest: message.AbstractGlobalEndRequest{Xid: xid}}
	case 1:
		return message.GlobalRollbackRequest{AbstractGlobalEndRequest: message.AbstractGlobalEndRequest{Xid: xid}}
	case 2:
		return message.BranchRegisterRequest{Xid: xid, BranchType: branch.BranchTypeAT, ResourceId: "jdbc:mysql://verif/none"}
	case 3:
		return message.BranchReportRequest{Xid: xid, BranchId: 1, Status: branch.BranchStatusPhaseoneDone, BranchType: branch.BranchTypeAT}
	}
	return message.GlobalLockQueryRequest{BranchRegisterRequest: message.BranchRegisterRequest{Xid: xid, BranchType: branch.BranchTypeAT, ResourceId: "jdbc:mysql://verif/none"}}
}

func (l *clientLab) run(em *emitter, sc scenario, seed int64, idx int) string {
	nlose := 0
	pol := l.policy
	l.gen++
	slots := map[int]*tc.Session{}
	tbl := absentTable()
	everClosedOnly := map[int]bool{} // closed with SetClosed and never told to the client
	nsel := 0
	slotOf := func(s *tc.Session) int {
		for id, q := range slots {
			if q == s {
				return id
			}
		}
		return -1
	}
	// what the client did behind the driver's back: it released (and closed) a session
	resync := func() {
		for id := 1; id <= 4; id++ {
			if tbl[id-1].Open && slots[id] != nil && slots[id].IsClosed() {
				tbl[id-1].Open = false
				if tbl[id-1].Reg {
					tbl[id-1].Reg = false
					em.Add("Release", "id", id, "sig", "client-released")
				}
			}
		}
	}
	open := func(id int, addr string) {
		resync()
		from := l.cursor()
		s := l.newSession(addr, fmt.Sprintf("g%d-s%d", l.gen, id))
		slots[id] = s
		tbl[id-1] = sessT{Addr: addr, Open: true}
		em.Add("Open", "id", id, "addr", addr, "sig", "open")
		if err := s.Open(); err != nil {
			em.fatal("OnOpen: %v", err)
		}
		tbl[id-1].Reg = true
		em.Add("Register", "id", id, "sig", "register")
		// the RegisterTM request the client sends on every new session is a request like any other
		nsel++
		x := xidT{Form: "none", Addr: "none"}
		r, res := 0, "err"
		if w := l.wait(from, func(w wrec) bool { return w.kind == "RegisterTM" }, time.Second); w != nil {
			r, res = slotOf(w.sess), "ok"
		}
		em.Add("Select", "xid", x, "r", r, "res", res, "req", "RegisterTM", "sig", selSig("client", pol, x, tbl, r))
		time.Sleep(300 * time.Microsecond)
	}
	em.Add("Init", "part", "sel", "level", "client", "policy", pol, "sess", absentTable(), "sig", "init")
	for _, st := range sc.Steps {
		switch st.Op {
		case "init":
			for k, e := range st.Sess {
				if e.Addr != "none" {
					open(k+1, e.Addr)
				}
			}
			for k, e := range st.Sess {
				if e.Addr != "none" && !e.Open && tbl[k].Open {
					slots[k+1].SetClosed(true)
					tbl[k].Open = false
					everClosedOnly[k+1] = true
					em.Add("Close", "id", k+1, "sig", "close")
				}
			}
		case "open":
			open(st.ID, st.Addr)
		case "close":
			resync()
			if tbl[st.ID-1].Open {
				slots[st.ID].SetClosed(true)
				tbl[st.ID-1].Open = false
				everClosedOnly[st.ID] = true
				em.Add("Close", "id", st.ID, "sig", "close")
			}
		case "lose":
			resync()
			if tbl[st.ID-1].Reg {
				// every other loss is one getty reports as an error: OnError and then OnClose for the same session
				if (idx+nlose)%2 == 0 {
					slots[st.ID].LoseByError(errors.New("read tcp: connection reset by peer"))
				} else {
					slots[st.ID].Lose()
				}
				nlose++
				tbl[st.ID-1].Open, tbl[st.ID-1].Reg = false, false
				delete(everClosedOnly, st.ID)
				em.Add("Release", "id", st.ID, "sig", "release")
			}
		case "select":
			resync()
			if nlive(tbl) == 0 {
				// With no open session the client polls for up to 60 s when its session counter is zero;
				// the driver only sends when sessions are still registered (counter non-zero: immediate answer)
				still := false
				for id := range everClosedOnly {
					if tbl[id-1].Reg {
						still = true
					}
				}
				if !still {
					continue
				}
			}
			nsel++
			xid := concreteXid(*st.Xid, seed*131+int64(idx)*17+int64(nsel)*7+int64(l.gen)*5003)
			if xid != "" {
				xid = fmt.Sprintf("%s%d", xid, l.gen%10) // unique per scenario of this process, same shape
			}
			kind := int(seed) + idx + nsel
			req := request(kind, xid)
			from := l.cursor()
			done := make(chan string, 1)
			go func() {
				defer func() {
					if p := recover(); p != nil {
						done <- "panic"
					}
				}()
				_, err := sgetty.GetGettyRemotingClient().SendSyncRequest(req)
				if err != nil {
					done <- "err"
				} else {
					done <- "ok"
				}
			}()
			res := ""
			select {
			case res = <-done:
			case <-time.After(8 * time.Second):
				res = "hang"
			}
			r := 0
			want := tc.Kind(req)
			if w := l.find(from, func(w wrec) bool { return w.kind == want && w.xid == xid }); w != nil {
				r, res = slotOf(w.sess), "ok"
			} else if res == "ok" {
				res = "err" // answered without having been written anywhere: cannot happen
			}
			em.Add("Select", "xid", *st.Xid, "r", r, "res", res, "req", want, "sig", selSig("client", pol, *st.Xid, tbl, r))
		}
	}
	em.Add("End", "sig", "end")
	// leave the process without sessions
	for id, s := range slots {
		if tbl[id-1].Reg {
			s.Lose()
		} else {
			s.SetClosed(true)
		}
	}
	time.Sleep(200 * time.Microsecond)
	return fmt.Sprintf("client/%s sel=%d", pol, nsel)
}

// ----------------------------------------------------------------------------- reconnect

type tccSvc struct{ name string }

func (tccSvc) Prepare(ctx context.Context, params interface{}) (bool, error) { return true, nil }
func (tccSvc) Commit(ctx context.Context, bac *tm.BusinessActionContext) (bool, error) {
	return true, nil
}
func (tccSvc) Rollback(ctx context.Context, bac *tm.BusinessActionContext) (bool, error) {
	return true, nil
}
func (t tccSvc) GetActionName() string {
	if t.name != "" {
		return t.name
	}
	return "verifTccAction"
}

type pending struct {
	abs  string
	rid  string
	xid  string
	bid  int64
	bt   branch.BranchType
	data []byte
	kind string // commit | rollback
}

func sessIdx(name string) int {
	if name == "by" {
		return 0
	}
	var n int
	if _, err := fmt.Sscanf(name, "s%d", &n); err == nil {
		return n
	}
	return 9
}

func runReconnect(em *emitter, policy string, sc scenario, o *common.Opts, idx int) string {
	cfg := tc.DefaultConfig()
	cfg.LoadBalance = policy
	lab := atlab.Open(cfg, "db0")
	coord := lab.Coord
	schema := atlab.Family()[0]
	lab.Srv.MustExec(schema.DDL)
	lab.Load(schema, []atlab.Row{{W: 0, U: 0}, {W: 0, U: 0}})
	proxy, err := tcc.NewTCCServiceProxy(&tccSvc{})
	if err != nil {
		em.fatal("tcc proxy: %v", err)
	}
	tccRID := proxy.GetActionName()
	// a second action: two resources under one resource manager (what is done for one of them on a new session
	// must not decide what is done for the other)
	proxy2, err := tcc.NewTCCServiceProxy(&tccSvc{name: "verifTccAction2"})
	if err != nil {
		em.fatal("tcc proxy 2: %v", err)
	}
	tcc2RID := proxy2.GetActionName()
	absOf := func(rid string) string {
		switch rid {
		case lab.RID:
			return "at"
		case tccRID:
			return "tcc"
		case tcc2RID:
			return "tcc2"
		}
		return "other"
	}
	ridOf := map[string]string{"at": lab.RID, "tcc": tccRID, "tcc2": tcc2RID}
	// re-announcements the transport is to fail: resource id -> session name
	var failMu sync.Mutex
	failAnn := map[string]string{}
	tcs := []*tc.TC{coord}
	var tc2 *tc.TC
	init := sc.Steps[0]
	grace := 400 * time.Millisecond
	if o.Thorough() {
		grace = 1500 * time.Millisecond
	}

	// announcements per session, from the coordinators' logs
	type annT struct {
		tm bool
		rm map[string]bool
	}
	announced := func(name string) annT {
		a := annT{rm: map[string]bool{}}
		for _, t := range tcs {
			for _, r := range t.Log() {
				if r.Dir != "in" || r.Session != name || r.Note != "" {
					continue
				}
				switch b := r.Body.(type) {
				case message.RegisterTMRequest:
					a.tm = true
				case message.RegisterRMRequest:
					for _, rid := range strings.Split(b.ResourceIds, ",") {
						a.rm[strings.TrimSpace(rid)] = true
					}
				}
			}
		}
		return a
	}
	var lastSeq int64
	emitAnnouncements := func() {
		var recs []tc.Record
		for _, t := range tcs {
			for _, r := range t.Log() {
				if r.Dir == "in" && r.Seq > lastSeq && (r.Note == "" || r.Note == "neterr") && (r.Kind == "RegisterTM" || r.Kind == "RegisterRM") {
					recs = append(recs, r)
				}
			}
		}
		sort.Slice(recs, func(a, b int) bool { return recs[a].Seq < recs[b].Seq })
		for _, r := range recs {
			lastSeq = r.Seq
			switch b := r.Body.(type) {
			case message.RegisterTMRequest:
				em.Add("AnnounceTM", "s", sessIdx(r.Session), "sig", "announce-tm")
			case message.RegisterRMRequest:
				for _, rid := range strings.Split(b.ResourceIds, ",") {
					if r.Note == "neterr" {
						em.Add("AnnounceFailed", "s", sessIdx(r.Session), "rid", absOf(strings.TrimSpace(rid)), "sig", "announce-failed")
					} else {
						em.Add("AnnounceRM", "s", sessIdx(r.Session), "rid", absOf(strings.TrimSpace(rid)), "sig", "announce-rm")
					}
				}
			}
		}
	}

	// the coordinator accepts a begin only on a session that announced a transaction manager
	var holdMu sync.Mutex
	var holds []chan struct{}
	script := func(kind string, m tc.Msg) (tc.Reply, bool) {
		if req, ok := m.Rpc.Body.(message.RegisterRMRequest); ok {
			failMu.Lock()
			sess, hit := failAnn[strings.TrimSpace(req.ResourceIds)]
			if hit && sess == m.Session.Name {
				delete(failAnn, strings.TrimSpace(req.ResourceIds))
			}
			failMu.Unlock()
			if hit && sess == m.Session.Name {
				return tc.Reply{NetErr: errors.New("write tcp 10.0.0.9:40112->10.0.0.1:8091: i/o timeout")}, true
			}
		}
		if req, ok := m.Rpc.Body.(message.GlobalBeginRequest); ok {
			if strings.HasPrefix(req.TransactionName, "inflight") {
				ch := make(chan struct{})
				holdMu.Lock()
				holds = append(holds, ch)
				holdMu.Unlock()
				rep := coord.Model(kind, m)
				rep.HoldBack = ch
				return rep, true
			}
			if !announced(m.Session.Name).tm {
				return tc.Reply{Body: message.GlobalBeginResponse{AbstractTransactionResponse: message.AbstractTransactionResponse{
					AbstractResultMessage: tc.FailResult("channel is not registered as transaction manager")}}}, true
			}
		}
		return tc.Reply{}, false
	}
	coord.Script = script

	a1 := announced("s1")
	if !a1.tm || !a1.rm[lab.RID] || !a1.rm[tccRID] || !a1.rm[tcc2RID] {
		em.fatal("setup: first session lacks announcements: tm=%v rm=%v (at=%q tcc=%q)", a1.tm, a1.rm, lab.RID, tccRID)
	}
	// mark everything seen so far as emitted: Init carries it
	for _, r := range coord.Log() {
		if r.Seq > lastSeq {
			lastSeq = r.Seq
		}
	}

	cur := lab.Sess
	nsess := 1
	var pend []pending
	nwork := 0
	losses := 0
	point := "idle"
	byOpened := false
	started := false
	openBystander := func() {
		// the bystander appears after the workload and before the first loss
		if !init.By || byOpened {
			return
		}
		byOpened = true
		tc2 = tc.NewTC(addrOf["a2"])
		tc2.Script = script
		tcs = append(tcs, tc2)
		before := len(coord.Log()) + len(tc2.Log())
		tc2.OpenSession("by")
		waitUntil(func() bool { return len(coord.Log())+len(tc2.Log()) > before }, time.Second)
		for k := 0; k < init.Shift; k++ {
			sgetty.GetGettyRemotingClient().SendSyncRequest(request(3, "10.0.0.1:8091:1"))
		}
	}
	emitInit := func() {
		if started {
			return
		}
		started = true
		openBystander()
		ab := announced("by")
		for _, t := range tcs {
			for _, r := range t.Log() {
				if r.Seq > lastSeq {
					lastSeq = r.Seq
				}
			}
		}
		em.Add("Init", "part", "rc", "resources", []string{"at", "tcc", "tcc2"}, "by", init.By,
			"tm0", a1.tm, "rm0", []string{"at", "tcc", "tcc2"}, "tmb", ab.tm, "rmb", keysAbs(ab.rm, absOf), "sig", "init")
	}
	sigOf := func() string {
		b := 0
		if init.By {
			b = 1
		}
		return fmt.Sprintf("rc/by=%d/loss=%d/point=%s", b, min(losses, 2), point)
	}

	if init.By {
		// Init must describe the state before the first workload step; with a bystander the workload runs
		// first (on the only session) and the bystander is opened just before the loss, see openBystander
	} else {
		emitInit()
	}
	var early []func() // with a bystander: Work events are emitted after Init
	for _, st := range sc.Steps[1:] {
		switch st.Op {
		case "work":
			nwork++
			switch st.Kind {
			case "tx":
				commit := (int64(idx)+o.Seed+int64(nwork))%2 == 0
				var xid string
				txerr := tm.WithGlobalTx(context.Background(), &tm.GtxConfig{Name: fmt.Sprintf("work-%d", nwork), Timeout: 30 * time.Second},
					func(ctx context.Context) error {
						xid = tm.GetXID(ctx)
						stmt := atlab.Stmt{Kind: "upd", Keys: []int{1 + (nwork-1)%2}, W: 1 + nwork%2, U: 0}
						if err := lab.RunBranch(ctx, schema, []atlab.Stmt{stmt}, atlab.Style{}); err != nil {
							return fmt.Errorf("AT phase one: %w", err)
						}
						if _, err := proxy.Prepare(ctx, map[string]interface{}{"n": nwork}); err != nil {
							return fmt.Errorf("TCC phase one: %w", err)
						}
						if _, err := proxy2.Prepare(ctx, map[string]interface{}{"n": nwork}); err != nil {
							return fmt.Errorf("TCC (second action) phase one: %w", err)
						}
						if !commit {
							return errors.New("business decides to roll back")
						}
						return nil
					})
				if commit && txerr != nil {
					em.fatal("workload transaction failed: %v", txerr)
				}
				var got []string
				reqs := map[int32]message.BranchRegisterRequest{}
				for _, r := range coord.Log() {
					if r.Dir == "in" {
						if req, ok := r.Body.(message.BranchRegisterRequest); ok && req.Xid == xid && r.Note == "" {
							reqs[r.ID] = req
						}
					} else if resp, ok := r.Body.(message.BranchRegisterResponse); ok {
						if req, ok := reqs[r.ID]; ok && resp.ResultCode == message.ResultCodeSuccess {
							k := "rollback"
							if commit {
								k = "commit"
							}
							pend = append(pend, pending{abs: absOf(req.ResourceId), rid: req.ResourceId, xid: xid, bid: resp.BranchId,
								bt: req.BranchType, data: req.ApplicationData, kind: k})
							got = append(got, absOf(req.ResourceId))
						}
					}
				}
				if len(got) != 3 {
					em.fatal("workload transaction registered branches %v, want at, tcc and tcc2 (err %v)", got, txerr)
				}
				point = "p1p2"
				ev := func() { em.Add("Work", "kind", "tx", "branches", got, "sig", "work/tx") }
				if started {
					ev()
				} else {
					early = append(early, ev)
				}
			case "inflight":
				before := len(coord.Log())
				go func(n int) {
					defer func() { recover() }()
					tm.WithGlobalTx(context.Background(), &tm.GtxConfig{Name: fmt.Sprintf("inflight-%d", n), Timeout: 30 * time.Second},
						func(ctx context.Context) error { return nil })
				}(nwork)
				if !waitUntil(func() bool {
					for _, r := range coord.Log()[before:] {
						if r.Kind == "GlobalBegin" && r.Dir == "in" {
							return true
						}
					}
					return false
				}, 2*time.Second) {
					em.fatal("the in-flight begin request never reached the coordinator")
				}
				point = "inflight"
				ev := func() { em.Add("Work", "kind", "inflight", "branches", []string{}, "sig", "work/inflight") }
				if started {
					ev()
				} else {
					early = append(early, ev)
				}
			}
		case "lose":
			emitInit()
			for _, ev := range early {
				ev()
			}
			early = nil
			losses++
			em.Add("Lose", "sig", sigOf())
			if (idx+losses)%2 == 0 {
				cur.LoseByError(errors.New("read tcp: connection reset by peer"))
			} else {
				cur.Lose()
			}
		case "reopen":
			nsess++
			before := 0
			for _, t := range tcs {
				before += len(t.Log())
			}
			failMu.Lock()
			for k := range failAnn {
				delete(failAnn, k)
			}
			for _, abs := range st.FailAnn {
				failAnn[ridOf[abs]] = fmt.Sprintf("s%d", nsess)
			}
			failMu.Unlock()
			cur = coord.OpenSession(fmt.Sprintf("s%d", nsess))
			em.Add("Reopen", "sig", sigOf())
			// never go on while the client may be between "registered" and "announced": a request sent while
			// no session is usable makes the client poll for up to 60 s
			waitUntil(func() bool {
				n := 0
				for _, t := range tcs {
					n += len(t.Log())
				}
				return n > before
			}, time.Second)
			if os.Getenv("C19_WORKAROUND") != "" {
				// what-if (not part of ./check): an application that re-registers its resources itself after a
				// reconnect, through the public API - shows that the oracle accepts a conforming client
				for _, bt := range []branch.BranchType{branch.BranchTypeAT, branch.BranchTypeTCC} {
					rm.GetRmCacheInstance().GetResourceManager(bt).GetCachedResources().Range(func(_, v interface{}) bool {
						if res, ok := v.(rm.Resource); ok {
							rm.GetRMRemotingInstance().RegisterResource(res)
						}
						return true
					})
				}
			}
		case "settle":
			end := time.Now().Add(grace)
			for time.Now().Before(end) {
				a := announced(cur.Name)
				if a.tm && a.rm[lab.RID] && a.rm[tccRID] && a.rm[tcc2RID] {
					break
				}
				time.Sleep(5 * time.Millisecond)
			}
			time.Sleep(20 * time.Millisecond)
			emitAnnouncements()
			em.Add("Settle", "sig", sigOf())
			if init.By {
				// with two coordinators in play the follow-up traffic is spread over both; the by-scenarios
				// speak about the announcement only
				break
			}
			// a new global transaction
			berr := tm.WithGlobalTx(context.Background(), &tm.GtxConfig{Name: fmt.Sprintf("after-%d", nsess), Timeout: 30 * time.Second},
				func(ctx context.Context) error { return nil })
			em.Add("BeginAfter", "ok", berr == nil, "sig", sigOf())
			// phase two of the earlier branches, routed the way the coordinator routes: only over a session
			// that announced the resource
			for _, p := range pend {
				reached := announced(cur.Name).rm[p.rid]
				answered := false
				if reached {
					var ok bool
					if p.kind == "commit" {
						_, ok = coord.BranchCommit(cur, p.xid, p.bid, p.bt, p.rid, p.data, 8*time.Second)
					} else {
						_, ok = coord.BranchRollback(cur, p.xid, p.bid, p.bt, p.rid, p.data, 8*time.Second)
					}
					answered = ok
				}
				em.Add("Phase2", "rid", p.abs, "kind", p.kind, "reached", reached, "answered", answered, "sig", sigOf()+"/"+p.abs+"/"+p.kind)
			}
			for _, p := range pend {
				coord.ReleaseLocks(p.xid)
			}
			pend = nil
			point = "idle"
		}
	}
	emitInit()
	time.Sleep(10 * time.Millisecond)
	emitAnnouncements()
	em.Add("End", "sig", "end")
	holdMu.Lock()
	for _, ch := range holds {
		close(ch)
	}
	holdMu.Unlock()
	return fmt.Sprintf("rc/%s by=%v losses=%d", policy, init.By, losses)
}

func keysAbs(m map[string]bool, absOf func(string) string) []string {
	out := []string{}
	for k := range m {
		out = append(out, absOf(k))
	}
	sort.Strings(out)
	return out
}

func waitUntil(f func() bool, d time.Duration) bool {
	end := time.Now().Add(d)
	for time.Now().Before(end) {
		if f() {
			return true
		}
		time.Sleep(time.Millisecond)
	}
	return f()
}
