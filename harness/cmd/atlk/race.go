// mode "race" of the ATLocks driver (C03, ATLocks_Race.tla): the operations of two global transactions
// overlap in time.  A's operation runs on its own goroutine and connection and is parked at a chosen
// position (before its k-th database statement, or around a coordinator reply); while it is parked B's
// operation runs on another goroutine and connection until it finishes or is blocked by A's row locks;
// then A is released.  Events are recorded in real completion order (tc.NextSeq, shared with memsql).
package main

import (
	"context"
	"database/sql"
	"fmt"
	"os"
	"sort"
	"strconv"
	"strings"
	"sync"
	"time"

	"seata.apache.org/seata-go/pkg/protocol/message"
	"seata.apache.org/seata-go/pkg/tm"

	"verif/harness/atlab"
	"verif/harness/common"
	"verif/harness/memsql"
	"verif/harness/tc"
	"verif/harness/trace"
)

type raceStep struct {
	Op   string `json:"op"`
	G    int    `json:"g,omitempty"`
	Kind string `json:"kind,omitempty"`
	Keys []int  `json:"keys,omitempty"`
	At   string `json:"at,omitempty"`
	How  string `json:"how,omitempty"`
	Rows []int  `json:"rows,omitempty"`
}

type raceScenario struct {
	Race []raceStep `json:"race"`
}

type raceEvent struct {
	seq  int64
	name string
	kv   []interface{}
}

type opResult struct {
	res   string // ok | conflict | error
	cls   string // ok | conflict | dbwait | other
	msg   string
	rkeys []int
	rvals []int
	locks int // local row locks the connection holds when a failed locking read returns (before the application rolls back)
}

const (
	raceLockWait  = 4 * time.Second       // a blocked statement waits for the other transaction, it does not time out
	raceBlockedAt = 15 * time.Millisecond // a statement of B in flight this long while A holds row locks is blocked
	raceBound     = 8 * time.Second       // no step of a scenario takes longer; beyond it the scenario is inconclusive
)

// raceRun is the shared state of one scenario.
type raceRun struct {
	mu       sync.Mutex
	lab      *atlab.Lab
	schema   *atlab.Schema
	conn     [3]int // memsql connection id of g
	pending  [3]bool
	inflight [3]time.Time
	wrote    [3]map[int]bool // rows written in the open local transaction of g's connection
	nstmt    int             // database statements A's operation has sent so far
	parkStmt int             // park A before its parkStmt-th statement (0: not a statement gate)
	parkMsg  string          // "LockQuery" | "BranchRegister" (coordinator gate) or ""
	parkAft  bool            // park after the coordinator computed its answer (else before)
	xidA     string
	didPark  bool
	parkCls  string
	parked   chan struct{}
	release  chan struct{}
	events   []raceEvent
}

func (r *raceRun) add(seq int64, name string, kv ...interface{}) {
	r.mu.Lock()
	r.events = append(r.events, raceEvent{seq, name, kv})
	r.mu.Unlock()
}

func (r *raceRun) who(conn int) int {
	for g := 1; g <= 2; g++ {
		if r.conn[g] == conn {
			return g
		}
	}
	return 0
}

// park blocks the calling goroutine (A's) until the driver releases it.
func (r *raceRun) park(cls string) {
	r.mu.Lock()
	if r.didPark {
		r.mu.Unlock()
		return
	}
	r.didPark = true
	r.parkCls = cls
	r.mu.Unlock()
	close(r.parked)
	<-r.release
}

func metaStmt(e *memsql.Entry) bool {
	return strings.HasPrefix(e.Table, "information_schema") || e.Class == "show" || e.Class == "set"
}

// gate runs before a statement executes (no memsql lock held).
func (r *raceRun) gate(e *memsql.Entry) error {
	g := r.who(e.Conn)
	if g == 0 || metaStmt(e) {
		return nil
	}
	park := false
	r.mu.Lock()
	r.inflight[g] = time.Now()
	if g == 1 && r.pending[1] {
		r.nstmt++
		if r.parkStmt > 0 && r.nstmt == r.parkStmt && !r.didPark {
			park = true
		}
	}
	r.mu.Unlock()
	if park {
		r.park(e.Class)
	}
	return nil
}

// observe runs after a statement was journaled.  The successful COMMIT of a local transaction that wrote rows
// of the table is the linearization point of the write.
func (r *raceRun) observe(e memsql.Entry) {
	g := r.who(e.Conn)
	if g == 0 || metaStmt(&e) {
		return
	}
	r.mu.Lock()
	defer r.mu.Unlock()
	r.inflight[g] = time.Time{}
	switch e.Class {
	case "begin", "rollback":
		r.wrote[g] = map[int]bool{}
	case "update", "insert", "delete":
		if e.Err == "" && e.Table == r.schema.Name {
			if r.wrote[g] == nil {
				r.wrote[g] = map[int]bool{}
			}
			for _, kt := range e.Keys {
				r.wrote[g][r.keyOfText(kt)] = true
			}
			if !e.InTx {
				// a write outside any local transaction is visible at once
				r.linLocked(g, e.Seq)
			}
		}
	case "commit":
		if e.Err == "" {
			r.linLocked(g, e.Seq)
		}
		r.wrote[g] = map[int]bool{}
	}
}

func (r *raceRun) linLocked(g int, seq int64) {
	if len(r.wrote[g]) == 0 {
		return
	}
	ks := make([]int, 0, 2)
	for k := range r.wrote[g] {
		ks = append(ks, k)
	}
	sort.Ints(ks)
	r.events = append(r.events, raceEvent{seq, "Lin", []interface{}{"g", g, "wkeys", ks}})
	r.wrote[g] = map[int]bool{}
}

func (r *raceRun) keyOfText(kt string) int {
	for k := 1; k <= r.lab.NKeys; k++ {
		if r.schema.KeyText(k) == kt {
			return k
		}
	}
	return 99 // a row that is none of the scenario's keys
}

func xidOfBody(b interface{}) string {
	switch q := b.(type) {
	case message.GlobalLockQueryRequest:
		return q.Xid
	case message.BranchRegisterRequest:
		return q.Xid
	}
	return ""
}

// script parks A around the coordinator's answer to its lock query / branch registration.
func (r *raceRun) script(kind string, m tc.Msg) (tc.Reply, bool) {
	if r.parkMsg == "" || kind != r.parkMsg || xidOfBody(m.Rpc.Body) != r.xidA {
		return tc.Reply{}, false
	}
	r.mu.Lock()
	did := r.didPark
	r.mu.Unlock()
	if did {
		return tc.Reply{}, false
	}
	if !r.parkAft {
		r.park(kind)
		return tc.Reply{}, false // the coordinator decides after B ran
	}
	rep := r.lab.Coord.Model(kind, m) // the coordinator decides now, A learns it after B ran
	rep.Before = func() { r.park(kind) }
	return rep, true
}

func (r *raceRun) locksOf(conn int) int {
	for _, cs := range r.lab.Srv.ConnStates() {
		if cs.Conn == conn && !cs.Closed {
			return cs.Locks
		}
	}
	return 0
}

// confirmed lists the rows for which the coordinator answered a lock query of xid with "lockable" (up to seq).
func (r *raceRun) confirmed(xid string, seq int64) []int {
	asked := map[int32]string{}
	set := map[int]bool{}
	for _, rec := range r.lab.Coord.Log() {
		if rec.Seq > seq {
			continue
		}
		switch b := rec.Body.(type) {
		case message.GlobalLockQueryRequest:
			if rec.Dir == "in" && b.Xid == xid {
				asked[rec.ID] = b.LockKey
			}
		case message.GlobalLockQueryResponse:
			lk, ok := asked[rec.ID]
			if rec.Dir != "out" || !ok || !b.Lockable || b.ResultCode != message.ResultCodeSuccess {
				continue
			}
			for _, k := range tc.LockKeys(lk) {
				i := strings.Index(k, ":")
				if i < 0 || !strings.EqualFold(k[:i], r.schema.Name) {
					continue
				}
				set[r.keyOfText(k[i+1:])] = true
			}
		}
	}
	out := make([]int, 0, len(set))
	for k := range set {
		out = append(out, k)
	}
	sort.Ints(out)
	return out
}

func classify(err error) (res, cls string) {
	if err == nil {
		return "ok", "ok"
	}
	s := strings.ToLower(err.Error())
	switch {
	case strings.Contains(s, "conflict"):
		return "conflict", "conflict"
	case strings.Contains(s, "lock wait timeout") || strings.Contains(s, "deadlock"):
		return "error", "dbwait"
	}
	return "error", "other"
}

func (r *raceRun) dbVals() []int {
	rows, extra := r.lab.Project(r.schema)
	out := make([]int, len(rows))
	for i, row := range rows {
		switch {
		case row == atlab.Absent:
			out[i] = -1
		case row.W < 0 || extra > 0:
			out[i] = -2
		default:
			out[i] = row.W
		}
	}
	return out
}

// scanRows reads (id, w1) rows into abstract keys and values.
func scanRows(rows *sql.Rows, res *opResult) error {
	defer rows.Close()
	for rows.Next() {
		var id, w1 int64
		if err := rows.Scan(&id, &w1); err != nil {
			return err
		}
		res.rkeys = append(res.rkeys, int(id))
		res.rvals = append(res.rvals, int(w1-10))
	}
	return rows.Err()
}

// runOp performs the operation of g on its connection inside its global transaction.
func (r *raceRun) runOp(ctx context.Context, c *sql.Conn, g int, st raceStep, style atlab.Style) {
	r.mu.Lock()
	r.pending[g] = true
	r.mu.Unlock()
	r.add(tc.NextSeq(), "OpStart", "g", g, "kind", st.Kind, "keys", st.Keys)
	out := opResult{rkeys: []int{}, rvals: []int{}}
	var err error
	func() {
		defer func() {
			if p := recover(); p != nil {
				err = fmt.Errorf("panic: %v", p)
			}
		}()
		switch st.Kind {
		case "sfu", "sfux":
			q := "SELECT id, w1 FROM " + r.schema.Name + " WHERE "
			var args []interface{}
			if len(st.Keys) == 1 {
				q += "id = ?"
				args = append(args, r.schema.KeyVals(st.Keys[0])[0])
			} else {
				q += "id IN (?, ?)"
				args = append(args, r.schema.KeyVals(st.Keys[0])[0], r.schema.KeyVals(st.Keys[1])[0])
			}
			q += " FOR UPDATE"
			if st.Kind == "sfu" {
				var rows *sql.Rows
				if rows, err = c.QueryContext(ctx, q, args...); err == nil {
					err = scanRows(rows, &out)
				}
				if err != nil {
					out.locks = r.locksOf(r.conn[g])
				}
				return
			}
			var tx *sql.Tx
			if tx, err = c.BeginTx(ctx, nil); err != nil {
				return
			}
			defer func() {
				if p := recover(); p != nil {
					_ = tx.Rollback()
					panic(p)
				}
			}()
			var rows *sql.Rows
			if rows, err = tx.QueryContext(ctx, q, args...); err == nil {
				err = scanRows(rows, &out)
			}
			if err != nil {
				out.locks = r.locksOf(r.conn[g])
				_ = tx.Rollback()
				return
			}
			err = tx.Commit()
		case "updx":
			q, args := r.schema.SQL(atlab.Stmt{Kind: "upd", Keys: st.Keys, W: g, U: g}, style)
			var tx *sql.Tx
			if tx, err = c.BeginTx(ctx, nil); err != nil {
				return
			}
			defer func() {
				if p := recover(); p != nil {
					_ = tx.Rollback()
					panic(p)
				}
			}()
			if _, err = tx.ExecContext(ctx, q, args...); err != nil {
				_ = tx.Rollback()
				return
			}
			err = tx.Commit()
		default:
			q, args := r.schema.SQL(atlab.Stmt{Kind: st.Kind, Keys: st.Keys, W: g, U: g}, style)
			_, err = c.ExecContext(ctx, q, args...)
		}
	}()
	seq := tc.NextSeq()
	out.res, out.cls = classify(err)
	if err != nil {
		if out.cls == "other" {
			out.msg = err.Error()
		}
		out.rkeys, out.rvals = []int{}, []int{}
	}
	r.mu.Lock()
	r.pending[g] = false
	r.mu.Unlock()
	db := r.dbVals()
	r.add(seq, "OpEnd", "g", g, "res", out.res, "cls", out.cls, "rkeys", out.rkeys, "rvals", out.rvals,
		"confirmed", r.confirmed(tm.GetXID(ctx), seq), "locksLeft", out.locks, "db", db, "msg", out.msg)
}

// connID finds the memsql connection behind c by a marker statement sent outside any global transaction.
func (r *raceRun) connID(c *sql.Conn, marker int) int {
	var v int
	if err := c.QueryRowContext(context.Background(), "SELECT "+strconv.Itoa(marker)).Scan(&v); err != nil {
		common.Fatal("marker statement: %v", err)
	}
	for _, e := range r.lab.Srv.Journal() {
		if strings.Contains(e.SQL, strconv.Itoa(marker)) {
			return e.Conn
		}
	}
	common.Fatal("marker statement %d not in the journal", marker)
	return 0
}

// dump prints the database journal and the coordinator's log of the scenario in real order (debugging aid).
func (r *raceRun) dump() {
	type line struct {
		seq int64
		s   string
	}
	var ls []line
	for _, e := range r.lab.Srv.Journal() {
		g := r.who(e.Conn)
		ls = append(ls, line{e.Seq, fmt.Sprintf("db   g%d conn%d %-18s %s %v keys=%v err=%q", g, e.Conn, e.Class, e.SQL, e.Args, e.Keys, e.Err)})
	}
	for _, rec := range r.lab.Coord.Log() {
		ls = append(ls, line{rec.Seq, fmt.Sprintf("tc   %-3s %-16s %+v", rec.Dir, rec.Kind, rec.Body)})
	}
	r.mu.Lock()
	for _, e := range r.events {
		ls = append(ls, line{e.seq, fmt.Sprintf("drv  %s %v", e.name, e.kv)})
	}
	r.mu.Unlock()
	sort.SliceStable(ls, func(i, j int) bool { return ls[i].seq < ls[j].seq })
	for _, l := range ls {
		fmt.Fprintf(os.Stderr, "%6d %s\n", l.seq, l.s)
	}
}

func waitDone(ch chan struct{}, d time.Duration) bool {
	select {
	case <-ch:
		return true
	case <-time.After(d):
		return false
	}
}

func race(lab *atlab.Lab, t *trace.T, sc raceScenario, schema *atlab.Schema, style atlab.Style) {
	var a, b raceStep
	var init []int
	var ends []raceStep
	for _, st := range sc.Race {
		switch {
		case st.Op == "init":
			init = st.Rows
		case st.Op == "start" && st.G == 1:
			a = st
		case st.Op == "start" && st.G == 2:
			b = st
		case st.Op == "end":
			ends = append(ends, st)
		}
	}
	sort.Ints(a.Keys)
	sort.Ints(b.Keys)
	initS := ""
	rows := make([]atlab.Row, len(init))
	for i, v := range init {
		if v < 0 {
			rows[i] = atlab.Absent
			initS += "-"
		} else {
			rows[i] = atlab.Row{W: 0, U: 0}
			initS += "0"
		}
	}
	lab.Reset(schema)
	lab.Srv.SetLockWaitTimeout(raceLockWait)
	lab.Load(schema, rows)

	gm := tm.GetGlobalTransactionManager()
	ctxs := map[int]context.Context{}
	for g := 1; g <= 2; g++ {
		ctx := tm.InitSeataContext(context.Background())
		tm.SetTxName(ctx, fmt.Sprintf("race-g%d", g))
		tm.SetTxRole(ctx, tm.Launcher)
		if err := gm.Begin(ctx, 60*time.Second); err != nil {
			common.Fatal("begin: %v", err)
		}
		ctxs[g] = ctx
	}

	r := &raceRun{lab: lab, schema: schema, parked: make(chan struct{}), release: make(chan struct{})}
	r.xidA = tm.GetXID(ctxs[1])
	switch b.At {
	case "lqb", "lqa":
		r.parkMsg, r.parkAft = "LockQuery", b.At == "lqa"
	case "rgb", "rga":
		r.parkMsg, r.parkAft = "BranchRegister", b.At == "rga"
	default:
		n, err := strconv.Atoi(strings.TrimPrefix(b.At, "s"))
		if err != nil || n < 1 {
			common.Fatal("bad gate position %q", b.At)
		}
		r.parkStmt = n
	}
	conns := [3]*sql.Conn{}
	for g := 1; g <= 2; g++ {
		c, err := lab.DB.Conn(context.Background())
		if err != nil {
			common.Fatal("conn: %v", err)
		}
		conns[g] = c
		r.conn[g] = r.connID(c, 424200+g)
	}
	if r.conn[1] == r.conn[2] {
		common.Fatal("both operations got connection %d", r.conn[1])
	}
	lab.Srv.SetGate(r.gate)
	lab.Srv.SetObserver(r.observe)
	lab.Coord.Script = r.script
	released := false
	cleanup := func() {
		if !released {
			released = true
			close(r.release)
		}
		lab.Srv.SetGate(nil)
		lab.Srv.SetObserver(nil)
		lab.Coord.Script = nil
		for g := 1; g <= 2; g++ {
			_ = conns[g].Close()
		}
	}

	sig := func(extra string) string {
		r.mu.Lock()
		cls := r.parkCls
		r.mu.Unlock()
		s := fmt.Sprintf("race:%s:A=%s%d:B=%s%d:ov=%s:init=%s:at=%s", schema.Name, a.Kind, len(a.Keys), b.Kind, len(b.Keys),
			overlap(a.Keys, b.Keys), initS, b.At)
		if cls != "" {
			s += "/" + cls
		}
		if extra != "" {
			s += ":" + extra
		}
		return s
	}
	t.Add("Start", "init", init, "sig", sig(""))

	doneA, doneB := make(chan struct{}), make(chan struct{})
	go func() { defer close(doneA); r.runOp(ctxs[1], conns[1], 1, a, style) }()

	inconclusive := ""
	select {
	case <-r.parked:
	case <-doneA:
		// the operation has fewer statements than the gate position (or never talks to the coordinator that way)
		r.mu.Lock()
		n := r.nstmt
		r.mu.Unlock()
		t.Add("NA", "nstmt", n, "sig", sig("na"))
		cleanup()
		endBoth(lab, gm, ctxs, ends, nil)
		return
	case <-time.After(raceBound):
		inconclusive = "A neither parked nor returned"
	}

	how := "-"
	if inconclusive == "" {
		go func() { defer close(doneB); r.runOp(ctxs[2], conns[2], 2, b, style) }()
		deadline := time.Now().Add(raceBound)
	loop:
		for {
			select {
			case <-doneB:
				how = "ran"
				break loop
			default:
			}
			r.mu.Lock()
			since := r.inflight[2]
			r.mu.Unlock()
			if !since.IsZero() && time.Since(since) > raceBlockedAt && r.locksOf(r.conn[1]) > 0 {
				how = "blocked"
				break loop
			}
			if time.Now().After(deadline) {
				inconclusive = "B neither returned nor blocked on A's row locks"
				break loop
			}
			time.Sleep(200 * time.Microsecond)
		}
		released = true
		close(r.release)
		if !waitDone(doneA, raceBound) {
			inconclusive = "A did not return after its release"
		}
		if !waitDone(doneB, raceBound) {
			inconclusive = "B did not return"
		}
	}
	if inconclusive != "" {
		// unblock whatever hangs, then give up on this scenario
		lab.Srv.KillClientConns()
		okA := waitDone(doneA, raceBound)
		okB := how == "-" || waitDone(doneB, raceBound)
		t.Add("Inconclusive", "why", inconclusive, "sig", sig("inconclusive"))
		cleanup()
		if !okA || !okB {
			common.Fatal("race scenario left a goroutine behind: %s", inconclusive)
		}
		endBoth(lab, gm, ctxs, ends, nil)
		return
	}
	cleanup()
	if os.Getenv("VERIF_RACE_DEBUG") != "" {
		r.dump()
	}

	r.mu.Lock()
	evs := append([]raceEvent(nil), r.events...)
	r.mu.Unlock()
	sort.SliceStable(evs, func(i, j int) bool { return evs[i].seq < evs[j].seq })
	for _, e := range evs {
		extra := ""
		kv := e.kv
		m := map[string]interface{}{}
		for i := 0; i+1 < len(kv); i += 2 {
			m[kv[i].(string)] = kv[i+1]
		}
		switch e.name {
		case "OpStart":
			extra = fmt.Sprintf("g=%v", m["g"])
		case "Lin":
			extra = fmt.Sprintf("g=%v:lin", m["g"])
		case "OpEnd":
			extra = fmt.Sprintf("g=%v:%v", m["g"], m["cls"])
			kv = append(kv, "bhow", how)
		}
		t.Add(e.name, append(kv, "sig", sig(extra))...)
	}
	endBoth(lab, gm, ctxs, ends, func(st raceStep, err error) {
		t.Add("End", "g", st.G, "how", st.How, "err", err != nil, "db", r.dbVals(), "sig", sig(fmt.Sprintf("end:g=%d:%s", st.G, st.How)))
	})
	t.Add("Final", "db", r.dbVals(), "idle", lab.Idle(), "sig", sig("final"))
}

func overlap(a, b []int) string {
	n := 0
	for _, x := range a {
		for _, y := range b {
			if x == y {
				n++
			}
		}
	}
	switch {
	case n == len(a) && n == len(b):
		return "same"
	case n == len(b):
		return "bsub"
	case n == len(a):
		return "asub"
	}
	return "part"
}

// endBoth ends the two global transactions in the scenario's order.  A commit releases the coordinator's locks;
// for a rollback the driver plays the coordinator: it rolls the branches back in reverse order of their
// registration through the client's real handler and then releases the locks.
func endBoth(lab *atlab.Lab, gm *tm.GlobalTransactionManager, ctxs map[int]context.Context, ends []raceStep, emit func(st raceStep, err error)) {
	for _, st := range ends {
		ctx := ctxs[st.G]
		tx := tm.GetTx(ctx)
		xid := tm.GetXID(ctx)
		var err error
		if st.How == "commit" {
			err = gm.Commit(ctx, tx)
		} else {
			err = gm.Rollback(ctx, tx)
			regs := lab.Registered(xid)
			for j := len(regs) - 1; j >= 0; j-- {
				if status, _ := lab.Rollback(xid, regs[j].Bid, 0); status != "rollbacked" && err == nil {
					err = fmt.Errorf("branch rollback: %s", status)
				}
			}
			lab.Coord.ReleaseLocks(xid)
		}
		if emit != nil {
			emit(st, err)
		}
	}
}
