// Driver for ATLocks.tla (C03).
//   mode "two": two global transactions operate on the same rows one operation at a time (writes and
//               SELECT .. FOR UPDATE); the coordinator stand-in keeps its lock table from the lock keys
//               the client really sends.
//   mode "race": the operations of the two global transactions overlap in time (race.go, ATLocks_Race.tla).
//   mode "cover": single branches (the ATRollback C01 scenario set): the lock keys of the registration
//               must name every row the local transaction changed, and one row must always get the
//               same key text whatever statement form touched it.
package main

import (
	"context"
	"encoding/json"
	"fmt"
	"sort"
	"strings"
	"time"

	"seata.apache.org/seata-go/pkg/protocol/message"
	"seata.apache.org/seata-go/pkg/tm"

	"verif/harness/atlab"
	"verif/harness/common"
	"verif/harness/tc"
	"verif/harness/trace"
)

type step struct {
	Op    string       `json:"op"`
	G     int          `json:"g,omitempty"`
	Kind  string       `json:"kind,omitempty"`
	Keys  []int        `json:"keys,omitempty"`
	How   string       `json:"how,omitempty"`
	Stmts []atlab.Stmt `json:"stmts,omitempty"`
}

type scenario struct {
	Init  []atlab.Row `json:"init,omitempty"`
	Steps []step      `json:"steps"`
}

func main() {
	o := common.Parse()
	cfg := tc.DefaultConfig()
	lab := atlab.Open(cfg, fmt.Sprintf("lkdb%d", o.ShardK))
	raws, err := trace.ReadScenarios(o.Scenarios)
	if err != nil {
		common.Fatal("%v", err)
	}
	w, err := trace.NewWriter(o.Out)
	if err != nil {
		common.Fatal("%v", err)
	}
	w.SetBase(o.TraceBase())
	fam := atlab.Family()
	canon := map[string]map[string]bool{} // schema/key -> set of key texts seen
	for i, raw := range raws {
		if !o.Want(i) {
			continue
		}
		var sc scenario
		if err := json.Unmarshal(raw, &sc); err != nil {
			common.Fatal("scenario %d: %v", i, err)
		}
		r := o.Rand(int64(i))
		if o.Mode == "race" {
			var rs raceScenario
			if err := json.Unmarshal(raw, &rs); err != nil {
				common.Fatal("scenario %d: %v", i, err)
			}
			schema := fam[(i+int(o.Seed))%2]
			t := w.Begin(map[string]interface{}{"i": i, "sc": rs, "schema": schema.Name}, "race,schema="+schema.Name)
			race(lab, t, rs, schema, atlab.Style{InList: r.Intn(2) == 0})
			t.Close()
			continue
		}
		if o.Mode == "cover" {
			schemas := []*atlab.Schema{fam[0], fam[1], fam[2], fam[5], atlab.ByName("t_compr")}
			if o.Thorough() {
				schemas = append(schemas, fam[4])
			}
			schema := schemas[(i+int(o.Seed))%len(schemas)]
			var branches [][]atlab.Stmt
			for _, st := range sc.Steps {
				if st.Op == "p1" {
					branches = append(branches, st.Stmts)
				}
			}
			if schema.Auto && !atlab.AutoCompatible(sc.Init, branches) {
				schema = fam[0]
			}
			style := atlab.RandStyle(r)
			// every few scenarios the application "restarts": a new proxy handle, whose table-metadata cache is
			// filled by whichever spelling of the table name comes first (Style.Upper varies it) - the key text of a
			// row must not depend on that
			style.Upper = r.Intn(2) == 0
			if i%5 == 4 {
				lab.Reopen()
			}
			t := w.Begin(map[string]interface{}{"i": i, "sc": sc, "schema": schema.Name, "style": style},
				fmt.Sprintf("cover,schema=%s,lit=%v,explicit=%v", schema.Name, style.Literal, style.Explicit))
			cover(lab, t, sc, schema, style, canon)
			t.Close()
			continue
		}
		schema := fam[(i+int(o.Seed))%2]
		style := atlab.Style{InList: r.Intn(2) == 0}
		t := w.Begin(map[string]interface{}{"i": i, "sc": sc, "schema": schema.Name}, "two,schema="+schema.Name)
		two(lab, t, sc, schema, style)
		t.Close()
	}
	if o.Mode == "cover" {
		// one row, one key text: whatever statement form touched it
		t := w.Begin(map[string]interface{}{"i": -1}, "canon")
		t.Add("StartCanon", "sig", "canon")
		keys := make([]string, 0, len(canon))
		for k := range canon {
			keys = append(keys, k)
		}
		sort.Strings(keys)
		for _, k := range keys {
			texts := make([]string, 0)
			for tx := range canon[k] {
				texts = append(texts, tx)
			}
			sort.Strings(texts)
			t.Add("Canon", "row", k, "distinct", len(texts), "texts", texts, "sig", "canon:"+strings.SplitN(k, "/", 2)[0])
		}
		t.Close()
	}
	if err := w.Close(); err != nil {
		common.Fatal("%v", err)
	}
	fmt.Printf("DRIVER-OK traces=%d scenarios=%d\n", w.Count(), len(raws))
}

// lock keys the coordinator received for xid since `from` (index into the registered list)
func keysOf(lockKey string) map[string]bool {
	out := map[string]bool{}
	for _, k := range tc.LockKeys(lockKey) {
		i := strings.Index(k, ":")
		if i < 0 {
			continue
		}
		out[strings.ToUpper(k[:i])+":"+k[i+1:]] = true
	}
	return out
}

func cover(lab *atlab.Lab, t *trace.T, sc scenario, schema *atlab.Schema, style atlab.Style, canon map[string]map[string]bool) {
	lab.Reset(schema)
	lab.Load(schema, sc.Init)
	t.Add("StartCover", "sig", "start")
	_ = tm.WithGlobalTx(context.Background(), &tm.GtxConfig{Name: "cover", Timeout: 30 * time.Second}, func(ctx context.Context) error {
		xid := tm.GetXID(ctx)
		for _, st := range sc.Steps {
			if st.Op != "p1" {
				continue
			}
			before, _ := lab.Project(schema)
			nreg := len(lab.Registered(xid))
			err := lab.RunBranch(ctx, schema, st.Stmts, style)
			sig := fmt.Sprintf("%s:%s:lit=%v:explicit=%v", schema.Name, kinds(st.Stmts), style.Literal, style.Explicit)
			if err != nil {
				t.Add("Abort", "why", err.Error(), "sig", sig)
				return err
			}
			after, _ := lab.Project(schema)
			regs := lab.Registered(xid)
			sent := map[string]bool{}
			for _, rg := range regs[nreg:] {
				for k := range keysOf(rg.LockKey) {
					sent[k] = true
				}
			}
			covered := true
			missing := []string{}
			for k := 1; k <= lab.NKeys; k++ {
				if before[k-1] != after[k-1] {
					want := strings.ToUpper(schema.Name) + ":" + schema.KeyText(k)
					if !sent[want] {
						covered = false
						missing = append(missing, want)
					}
				}
			}
			// remember how each row was spelt
			for s := range sent {
				for k := 1; k <= lab.NKeys; k++ {
					if strings.EqualFold(s, schema.Name+":"+schema.KeyText(k)) {
						id := fmt.Sprintf("%s/%d", schema.Name, k)
						if canon[id] == nil {
							canon[id] = map[string]bool{}
						}
						// the spelling as sent (table-name case included)
						for _, rg := range regs[nreg:] {
							for _, raw := range tc.LockKeys(rg.LockKey) {
								if strings.EqualFold(raw, schema.Name+":"+schema.KeyText(k)) {
									canon[id][raw] = true
								}
							}
						}
					}
				}
			}
			t.Add("Cover", "covered", covered, "missing", missing, "nsent", len(sent), "sig", sig)
			// a locking read of both keys inside the same global transaction: the coordinator is asked about exactly
			// the rows that are there, under the same key text a write registers for them
			nlog := len(lab.Coord.Log())
			q, args := schema.SelectForUpdateSQL([]int{1, 2})
			nread := 0
			var rerr error
			if rows, err := lab.DB.QueryContext(ctx, q, args...); err != nil {
				rerr = err
			} else {
				for rows.Next() {
					nread++
				}
				rerr = rows.Err()
				rows.Close()
			}
			asked := map[string]bool{}
			for _, rec := range lab.Coord.Log()[nlog:] {
				if req, ok := rec.Body.(message.GlobalLockQueryRequest); ok && rec.Dir == "in" {
					for k := range keysOf(req.LockKey) {
						if !strings.HasSuffix(k, ":") { // "TABLE:" - a query about no row at all (the read found nothing)
							asked[k] = true
						}
					}
				}
			}
			want := map[string]bool{}
			for k := 1; k <= lab.NKeys; k++ {
				if after[k-1] != atlab.Absent {
					want[strings.ToUpper(schema.Name)+":"+schema.KeyText(k)] = true
				}
			}
			same := rerr == nil && len(asked) == len(want)
			for k := range want {
				if !asked[k] {
					same = false
				}
			}
			askedL := make([]string, 0, len(asked))
			for k := range asked {
				askedL = append(askedL, k)
			}
			sort.Strings(askedL)
			t.Add("SfuKeys", "same", same, "asked", askedL, "nread", nread, "err", rerr != nil, "sig", sig+":sfukeys")
		}
		return fmt.Errorf("done")
	})
	t.Add("End", "sig", "end")
}

func kinds(ss []atlab.Stmt) string {
	s := ""
	for i, st := range ss {
		if i > 0 {
			s += "+"
		}
		s += fmt.Sprintf("%s%d", st.Kind, len(st.Keys))
	}
	return s
}

func two(lab *atlab.Lab, t *trace.T, sc scenario, schema *atlab.Schema, style atlab.Style) {
	lab.Reset(schema)
	lab.Load(schema, []atlab.Row{{0, 0}, {0, 0}})
	t.Add("Start", "sig", "start")
	gm := tm.GetGlobalTransactionManager()
	ctxs := map[int]context.Context{}
	for g := 1; g <= 2; g++ {
		ctx := tm.InitSeataContext(context.Background())
		tm.SetTxName(ctx, fmt.Sprintf("two-g%d", g))
		tm.SetTxRole(ctx, tm.Launcher)
		if err := gm.Begin(ctx, 30*time.Second); err != nil {
			common.Fatal("begin: %v", err)
		}
		ctxs[g] = ctx
	}
	for opi, st := range sc.Steps {
		ctx := ctxs[st.G]
		switch st.Op {
		case "write":
			before := lab.Srv.SnapshotHash(schema.Name)
			// every write sets a value no earlier write has set, so that a successful write changes rows
			q, args := schema.SQL(atlab.Stmt{Kind: st.Kind, Keys: st.Keys, W: 1 + opi}, style)
			_, err := lab.DB.ExecContext(ctx, q, args...)
			changed := lab.Srv.SnapshotHash(schema.Name) != before
			t.Add("Write", "g", st.G, "kind", st.Kind, "keys", st.Keys, "ok", err == nil, "changed", changed,
				"idle", lab.Idle(), "sig", fmt.Sprintf("%s:write:%s%d:ok=%v", schema.Name, st.Kind, len(st.Keys), err == nil))
		case "sfu":
			b := "SELECT id, w1 FROM " + schema.Name + " WHERE "
			var args []interface{}
			if len(st.Keys) == 1 {
				b += "id = ?"
				args = append(args, schema.KeyVals(st.Keys[0])[0])
			} else {
				b += "id IN (?, ?)"
				args = append(args, schema.KeyVals(st.Keys[0])[0], schema.KeyVals(st.Keys[1])[0])
			}
			b += " FOR UPDATE"
			nrows := 0
			var qerr error
			func() {
				defer func() {
					if p := recover(); p != nil {
						qerr = fmt.Errorf("panic: %v", p)
					}
				}()
				rows, err := lab.DB.QueryContext(ctx, b, args...)
				if err != nil {
					qerr = err
					return
				}
				defer rows.Close()
				for rows.Next() {
					nrows++
				}
				qerr = rows.Err()
			}()
			locks := 0
			for _, ks := range lab.Srv.LockedRows() {
				locks += len(ks)
			}
			t.Add("Sfu", "g", st.G, "keys", st.Keys, "nrows", nrows, "err", qerr != nil, "locksLeft", locks,
				"sig", fmt.Sprintf("%s:sfu:%d:err=%v", schema.Name, len(st.Keys), qerr != nil))
		case "end":
			tx := tm.GetTx(ctx)
			var err error
			if st.How == "commit" {
				err = gm.Commit(ctx, tx)
			} else {
				err = gm.Rollback(ctx, tx)
			}
			t.Add("End", "g", st.G, "how", st.How, "err", err != nil, "sig", "end:"+st.How)
		}
	}
	t.Add("Final", "sig", "final")
}
