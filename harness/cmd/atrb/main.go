// Driver for ATRollback.tla (C01, C09, C10): replays TLC-generated global transactions (branches of
// abstract statements, foreign writes, rollback deliveries with injected database faults, a rollback
// that overtakes phase one) against the real AT proxy driver over memsql with the coordinator
// stand-in, and records the projected database state after every step.
package main

import (
	"context"
	"database/sql"
	"encoding/json"
	"errors"
	"fmt"
	"os"
	"strings"
	"sync"
	"time"

	"seata.apache.org/seata-go/pkg/protocol/branch"
	"seata.apache.org/seata-go/pkg/protocol/message"
	"seata.apache.org/seata-go/pkg/tm"

	"verif/harness/atlab"
	"verif/harness/common"
	"verif/harness/memsql"
	"verif/harness/tc"
	"verif/harness/trace"
)

type step struct {
	Key   int          `json:"key,omitempty"`
	Op    string       `json:"op"`
	Stmts []atlab.Stmt `json:"stmts,omitempty"`
	K     int          `json:"k,omitempty"`
	Row   *atlab.Row   `json:"row,omitempty"`
	B     int          `json:"b,omitempty"`
	Fail  int          `json:"fail,omitempty"`
}

type scenario struct {
	Init  []atlab.Row `json:"init"`
	Steps []step      `json:"steps"`
	// C18: the concrete spelling of the (single) statement
	Shape string `json:"shape,omitempty"`
	Place string `json:"place,omitempty"`
}

func env(name, def string) string {
	if v := os.Getenv(name); v != "" {
		return v
	}
	return def
}

var images bool

// curIndex: index of the scenario being run (chooses among spellings deterministically)
var curIndex int

func errClass(err error) string {
	m := err.Error()
	for _, p := range []string{"Named Parameters", "syntax", "Unknown column", "PK columnName", "pk update", "not support", "invalid conn", "expected", "Duplicate"} {
		if strings.Contains(m, p) {
			return strings.ReplaceAll(p, " ", "-")
		}
	}
	if len(m) > 40 {
		m = m[:40]
	}
	return strings.ReplaceAll(m, " ", "-")
}

// curStyle is the spelling of the scenario being run (a multi-statement UPDATE/DELETE is a class of its own)
var curStyle atlab.Style

func stmtSig(ss []atlab.Stmt) string {
	s := ""
	for i, st := range ss {
		if i > 0 {
			s += "+"
		}
		if curStyle.IsMulti(st) {
			s += "m"
		}
		s += fmt.Sprintf("%s%d", st.Kind, len(st.Keys))
	}
	return s
}

func main() {
	o := common.Parse()
	images = o.Prop == "C18"
	cfg := tc.DefaultConfig()
	cfg.OnlyCareUpdate = env("ONLYCARE", "true") == "true"
	cfg.DataValidation = env("VALIDATE", "true") == "true"
	cfg.Serialization = env("SERIALIZER", "json")
	cfg.CompressType = env("COMPRESS", "None")
	cfg.CompressEnable = cfg.CompressType != "None"
	lab := atlab.Open(cfg, fmt.Sprintf("db%d", o.ShardK))
	fam := atlab.Family()
	schemaOnly := os.Getenv("SCHEMA")

	raws, err := trace.ReadScenarios(o.Scenarios)
	if err != nil {
		common.Fatal("%v", err)
	}
	w, err := trace.NewWriter(o.Out)
	if err != nil {
		common.Fatal("%v", err)
	}
	w.SetBase(o.TraceBase())
	nsch := 6 // t_int, t_null, t_comp, t_str, t_auto, t_zoo
	if os.Getenv("VERIF_ZOO_HARSH") != "" {
		nsch = 7 // + t_zooh: value classes with known defects (reported by C08)
	}
	if !o.Thorough() {
		nsch = 3 // quick: t_int, t_null, t_comp (rotating)
	}
	aborted := 0
	for i, raw := range raws {
		if !o.Want(i) {
			continue
		}
		var sc scenario
		if err := json.Unmarshal(raw, &sc); err != nil {
			common.Fatal("scenario %d: %v", i, err)
		}
		r := o.Rand(int64(i))
		var branches [][]atlab.Stmt
		for _, st := range sc.Steps {
			if st.Op == "p1" || st.Op == "p1late" || st.Op == "p1race" {
				branches = append(branches, st.Stmts)
			}
		}
		schema := fam[(i+int(o.Seed))%nsch]
		if schemaOnly != "" {
			schema = atlab.ByName(schemaOnly)
		}
		hasForeign := false
		for _, st := range sc.Steps {
			if st.Op == "foreign" {
				hasForeign = true
			}
		}
		if schema.Auto && (!atlab.AutoCompatible(sc.Init, branches) || hasForeign) {
			// a foreign insert with an explicit key moves the auto-increment counter: later generated keys would
			// not be the keys the scenario speaks of
			schema = fam[0]
		}
		if sc.Shape != "" && schemaOnly == "" {
			schema = []*atlab.Schema{fam[0], fam[1], fam[5]}[(i+int(o.Seed))%3]
		}
		style := atlab.RandStyle(r)
		if v := os.Getenv("STYLE_MULTI"); v != "" {
			style.Multi = v == "1" // debugging aid: force / forbid the multi-statement spelling
		}
		for _, f := range strings.Split(os.Getenv("STYLE_FORCE"), ",") {
			// a leg that wants one spelling for all its scenarios instead of the random mix
			switch f {
			case "pklate":
				style.PkLate = true
			case "bound":
				style.Literal = false
			case "literal":
				style.Literal = true
			case "multi":
				style.Multi = true
			case "single":
				style.Multi = false
			case "explicit":
				style.Explicit = true
			}
		}
		if os.Getenv("ONLYCARE") != "false" {
			// with only-care-update-columns on, the image of an INSERT that names some of the columns is a projection
			// on those columns, and what a foreign change to an omitted column then means for the rollback is not
			// settled by C09 / C18 (DESIGN 9): omitted columns are exercised where images are whole rows by configuration
			style.OmitU = false
		}
		curStyle = style
		cls := fmt.Sprintf("schema=%s,lit=%v,explicit=%v", schema.Name, style.Literal, style.Explicit)
		if sc.Shape != "" {
			cls = fmt.Sprintf("schema=%s,shape=%s,place=%s,explicit=%v", schema.Name, sc.Shape, sc.Place, style.Explicit)
		}
		t := w.Begin(map[string]interface{}{"i": i, "sc": sc, "schema": schema.Name, "style": style}, cls)
		curIndex = i
		if !run(lab, t, sc, schema, style) {
			aborted++
		}
		t.Close()
	}
	if err := w.Close(); err != nil {
		common.Fatal("%v", err)
	}
	fmt.Printf("DRIVER-OK traces=%d scenarios=%d aborted=%d\n", w.Count(), len(raws), aborted)
}

// run executes one scenario; false = the scenario was aborted because phase one itself failed
// (not this module's business: ATPhaseOne / Proxy report that)
func run(lab *atlab.Lab, t *trace.T, sc scenario, schema *atlab.Schema, style atlab.Style) bool {
	lab.Reset(schema)
	lab.Load(schema, sc.Init)
	db0, _ := lab.Project(schema)
	t.Add("Init", "db", db0, "sig", "init")
	var xid string
	pos := 0
	nb := 0
	bids := map[int]int64{} // abstract branch -> real branch id (absent: not registered)
	late := map[int]bool{}
	aborted := false
	sigBase := schema.Name
	if schema.Zoo && os.Getenv("SERIALIZER") == "protobuf" {
		// the protobuf undo parser loses the type of DATETIME values (known finding F-C08-8): keep the class apart
		sigBase += ":ser=protobuf"
	}
	gerr := tm.WithGlobalTx(context.Background(), &tm.GtxConfig{Name: "atrb", Timeout: 30 * time.Second}, func(ctx context.Context) error {
		xid = tm.GetXID(ctx)
		for pos < len(sc.Steps) && sc.Steps[pos].Op != "rb" {
			st := sc.Steps[pos]
			pos++
			switch st.Op {
			case "p1":
				nb++
				before := len(lab.Registered(xid))
				var err error
				lab.Prelude = nil
				if style.FailFirst {
					if cur, _ := lab.Project(schema); true {
						for k := 1; k <= len(cur); k++ {
							if cur[k-1] != atlab.Absent && cur[k-1].W >= 0 {
								key := k
								lab.Prelude = func(ctx context.Context, tx *sql.Tx) {
									if style.FailIns && !schema.Auto {
										// an INSERT of a key that is there: the database refuses it (1062), the application carries on
										q, a := schema.SQL(atlab.Stmt{Kind: "ins", Keys: []int{key}, W: 2}, atlab.Style{})
										_, _ = tx.ExecContext(ctx, q, a...)
										return
									}
									q, a := schema.SQL(atlab.Stmt{Kind: "upd", Keys: []int{key}, W: 2}, atlab.Style{})
									lab.Srv.AddFault(memsql.Fault{Class: "update", Table: schema.Name})
									_, _ = tx.ExecContext(ctx, q, a...)
									lab.Srv.ClearFaults()
								}
								break
							}
						}
					}
				}
				if sc.Shape != "" && len(st.Stmts) == 1 {
					q, args, ok := schema.ShapeSQL(st.Stmts[0], sc.Shape, sc.Place)
					if !ok {
						t.Add("Abort", "why", "shape not applicable", "sig", "shape-na")
						aborted = true
						return fmt.Errorf("n/a")
					}
					err = lab.ExecSQL(ctx, q, args, style.Explicit)
				} else {
					err = lab.RunBranch(ctx, schema, st.Stmts, style)
				}
				lab.Prelude = nil
				regs := lab.Registered(xid)
				reg := len(regs) > before
				undo := "none"
				if reg {
					bids[nb] = regs[len(regs)-1].Bid
					undo = lab.UndoState(xid, bids[nb])
				}
				db, extra := lab.Project(schema)
				sig := fmt.Sprintf("%s:%s:lit=%v:explicit=%v", sigBase, stmtSig(st.Stmts), style.Literal, style.Explicit)
				if sc.Shape != "" {
					sig = fmt.Sprintf("%s:%s:shape=%s:place=%s", sigBase, stmtSig(st.Stmts), sc.Shape, sc.Place)
				}
				if err != nil && images {
					// C18: a refused statement must have recorded nothing; the refusal itself is reported
					t.Add("Refused", "b", nb, "stmts", st.Stmts, "why", errClass(err), "db", db, "undorows", lab.UndoRows(), "sig", sig+":"+errClass(err))
					aborted = true
					return err
				}
				if err != nil {
					// phase one failed without any injected fault: out of this module's scope
					t.Add("Abort", "why", "p1 failed: "+err.Error(), "sig", sig)
					aborted = true
					return err
				}
				t.Add("P1", "b", nb, "stmts", st.Stmts, "ok", err == nil, "undo", undo, "reg", reg, "db", db,
					"extra", extra, "idle", lab.Idle(), "sig", sig)
				if images && reg {
					imgs, ok, why := lab.UndoImages(schema, xid, bids[nb])
					if imgs == nil {
						imgs = []atlab.Image{}
					}
					if undo == "none" {
						ok, why = true, "" // nothing recorded: the empty image list
					}
					t.Add("Images", "b", nb, "imgs", imgs, "decoded", ok, "why", why, "sig", sig)
				}
			case "p1pk":
				// C18: an UPDATE that changes the primary key must be refused and record nothing
				nb++
				q := fmt.Sprintf("UPDATE %s SET id = ? WHERE id = ?", schema.Name)
				args := []interface{}{int64(77), schema.KeyVals(st.Key)[0]}
				spelling := "plain"
				if schema.KeyKind == "int" && len(schema.KeyCols) == 1 && !schema.Zoo {
					// the same change of a primary key in the spellings SQL allows: the column qualified by the table,
					// in upper case, back-quoted; and as the update half of an upsert that hits the existing row
					tn := schema.Name
					switch curIndex % 7 {
					case 1:
						spelling, q = "qualified", fmt.Sprintf("UPDATE %s SET %s.id = ? WHERE id = ?", tn, tn)
					case 2:
						spelling, q = "upper", fmt.Sprintf("UPDATE %s SET ID = ? WHERE id = ?", tn)
					case 3:
						spelling, q = "quoted", fmt.Sprintf("UPDATE %s SET `id` = ? WHERE id = ?", tn)
					case 4, 5, 6:
						col := "id"
						spelling = "upsert"
						if curIndex%7 == 5 {
							spelling, col = "upsert-qualified", tn+".id"
						} else if curIndex%7 == 6 {
							spelling, col = "upsert-upper", "ID"
						}
						q = fmt.Sprintf("INSERT INTO %s (id, w1, w2, u1) VALUES (?, ?, ?, ?) ON DUPLICATE KEY UPDATE %s = %s + 100", tn, col, col)
						args = []interface{}{schema.KeyVals(st.Key)[0], schema.W1(2), schema.W2(2), schema.U1(0)}
					}
				}
				if schema.KeyKind != "int" {
					t.Add("Abort", "why", "pk update only on int keys", "sig", "p1pk-na")
					aborted = true
					return fmt.Errorf("n/a")
				}
				err := lab.ExecSQL(ctx, q, args, style.Explicit)
				db, _ := lab.Project(schema)
				if err != nil {
					t.Add("RefusedPk", "b", nb, "key", st.Key, "db", db, "undorows", lab.UndoRows(), "sig", sigBase+":pkupdate:"+spelling)
				} else {
					t.Add("PkAccepted", "b", nb, "key", st.Key, "db", db, "undorows", lab.UndoRows(), "sig", sigBase+":pkupdate:"+spelling)
				}
				aborted = true // nothing more to do in this scenario
				return fmt.Errorf("done")
			case "p1late":
				nb++
				late[nb] = true
				var rbStatus string
				armed := true
				lab.Coord.Script = func(kind string, m tc.Msg) (tc.Reply, bool) {
					if kind == "BranchReport" && style.RefuseReports {
						return tc.Reply{NetErr: errors.New("write tcp: broken pipe")}, true
					}
					if kind != "BranchRegister" || !armed {
						return tc.Reply{}, false
					}
					armed = false
					rep := lab.Coord.Model(kind, m)
					resp, ok := rep.Body.(message.BranchRegisterResponse)
					if !ok || resp.ResultCode != message.ResultCodeSuccess {
						return rep, true
					}
					bids[nb] = resp.BranchId
					rep.Before = func() {
						// the coordinator's rollback of this branch overtakes the rest of phase one
						st, ok := lab.Coord.BranchRollback(lab.Sess, xid, resp.BranchId, branch.BranchTypeAT, lab.RID, nil, 8*time.Second)
						rbStatus = atlab.StatusName(st, ok)
					}
					return rep, true
				}
				err := lab.RunBranch(ctx, schema, st.Stmts, style)
				lab.Coord.Script = nil
				// "commits nothing": whatever the late phase one left on a pooled connection would become durable with
				// the next local transaction that gets the connection (START TRANSACTION commits implicitly)
				for n := 0; n < 3; n++ {
					if ptx, perr := lab.DB.BeginTx(context.Background(), nil); perr == nil {
						_ = ptx.Commit()
					}
				}
				if armed && err != nil {
					// phase one failed before it even registered the branch: not this module's business
					t.Add("Abort", "why", "p1 failed before register: "+err.Error(), "sig", fmt.Sprintf("%s:%s", sigBase, stmtSig(st.Stmts)))
					aborted = true
					return err
				}
				db, extra := lab.Project(schema)
				undo := "none"
				if bid, ok := bids[nb]; ok {
					undo = lab.UndoState(xid, bid)
				}
				t.Add("P1Late", "b", nb, "stmts", st.Stmts, "ok", err == nil, "rbstatus", rbStatus, "undo", undo, "db", db,
					"extra", extra, "idle", lab.Idle(), "sig", fmt.Sprintf("%s:%s:explicit=%v", sigBase, stmtSig(st.Stmts), style.Explicit))
			case "p1race":
				// the rollback of this branch and the end of its phase one interleave statement by statement: the
				// rollback transaction reads undo_log (no log yet) - phase one flushes and commits - the rollback
				// writes its marker.  The statement gate holds the rollback's INSERT into undo_log until phase one is done.
				nb++
				var rbStatus string
				armed := true
				var mu sync.Mutex
				rbConn, held := -1, false
				reached, release, rbDone := make(chan struct{}), make(chan struct{}), make(chan struct{})
				lab.Srv.SetGate(func(e *memsql.Entry) error {
					if !strings.EqualFold(e.Table, "undo_log") {
						return nil
					}
					mu.Lock()
					if strings.HasPrefix(e.Class, "select") && rbConn < 0 {
						rbConn = e.Conn
					}
					hold := e.Class == "insert" && e.Conn == rbConn && !held
					if hold {
						held = true
					}
					mu.Unlock()
					if hold {
						close(reached)
						<-release
					}
					return nil
				})
				lab.Coord.Script = func(kind string, m tc.Msg) (tc.Reply, bool) {
					if kind != "BranchRegister" || !armed {
						return tc.Reply{}, false
					}
					armed = false
					rep := lab.Coord.Model(kind, m)
					resp, ok := rep.Body.(message.BranchRegisterResponse)
					if !ok || resp.ResultCode != message.ResultCodeSuccess {
						return rep, true
					}
					bids[nb] = resp.BranchId
					rep.Before = func() {
						go func() {
							defer close(rbDone)
							st, ok := lab.Coord.BranchRollback(lab.Sess, xid, resp.BranchId, branch.BranchTypeAT, lab.RID, nil, 20*time.Second)
							rbStatus = atlab.StatusName(st, ok)
						}()
						select {
						case <-reached: // the rollback has read undo_log and stands before its marker
						case <-rbDone: // it ended without writing a marker
						case <-time.After(5 * time.Second):
						}
					}
					return rep, true
				}
				err := lab.RunBranch(ctx, schema, st.Stmts, style)
				lab.Coord.Script = nil
				close(release)
				if _, ok := bids[nb]; ok {
					<-rbDone
				}
				lab.Srv.SetGate(nil)
				sig := fmt.Sprintf("%s:%s:explicit=%v", sigBase, stmtSig(st.Stmts), style.Explicit)
				if _, ok := bids[nb]; !ok {
					if err != nil {
						t.Add("Abort", "why", "p1 failed before register: "+err.Error(), "sig", sig)
						aborted = true
						return err
					}
					t.Add("Abort", "why", "the statements changed nothing, no branch", "sig", sig)
					aborted = true
					return fmt.Errorf("done")
				}
				db, extra := lab.Project(schema)
				t.Add("P1Race", "b", nb, "stmts", st.Stmts, "ok", err == nil, "rbstatus", rbStatus, "undo", lab.UndoState(xid, bids[nb]), "db", db,
					"extra", extra, "idle", lab.Idle(), "sig", sig+":rb="+rbStatus)
			case "foreign":
				if err := lab.Put(schema, st.K, *st.Row); err != nil {
					t.Add("Abort", "why", "foreign write failed: "+err.Error(), "sig", "foreign")
					aborted = true
					return err
				}
				db, _ := lab.Project(schema)
				t.Add("Foreign", "key", st.K, "row", st.Row, "db", db, "sig", fmt.Sprintf("foreign:%d", st.K))
			}
		}
		return errors.New("business decides to roll back")
	})
	_ = gerr
	if aborted {
		t.Add("End", "sig", "end")
		return false
	}
	if images {
		// C18 is about what phase one recorded; the rollback of these branches is C01's business
		t.Add("End", "sig", "end")
		return true
	}
	// the coordinator rolls the registered branches back in reverse order of registration; the
	// scenario says, per branch, which deliveries it makes (fault position, repetitions)
	plan := map[int][]int{}
	for ; pos < len(sc.Steps); pos++ {
		if st := sc.Steps[pos]; st.Op == "rb" {
			plan[st.B] = append(plan[st.B], st.Fail)
		}
	}
	kindsOf := map[int]string{}
	n := 0
	for _, s := range sc.Steps {
		if s.Op == "p1" || s.Op == "p1late" || s.Op == "p1race" {
			n++
			kindsOf[n] = stmtSig(s.Stmts)
		}
	}
	for b := nb; b >= 1; b-- {
		bid, ok := bids[b]
		if !ok {
			continue // the coordinator never heard of this branch
		}
		if late[b] {
			continue // already rolled back when it overtook phase one
		}
		fails := plan[b]
		if len(fails) == 0 {
			fails = []int{0}
		}
		rolledBack := false
		for _, fail := range fails {
			status, fired := lab.Rollback(xid, bid, fail)
			db, extra := lab.Project(schema)
			idle := lab.Idle()
			if !idle && os.Getenv("VERIF_DUMP") != "" {
				fmt.Fprintf(os.Stderr, "NOTIDLE %+v\n", lab.Srv.ConnStates())
				for _, e := range lab.Srv.Journal() {
					fmt.Fprintf(os.Stderr, "J c%d %-18s %-12s intx=%v err=%s | %.90s\n", e.Conn, e.Class, e.Table, e.InTx, e.Err, e.SQL)
				}
			}
			t.Add("Rb", "b", b, "fail", fail, "fired", fired, "status", status, "db", db, "extra", extra,
				"undo", lab.UndoState(xid, bid), "idle", idle,
				"sig", fmt.Sprintf("%s:%s:fail=%d:fired=%v:status=%s", sigBase, kindsOf[b], fail, fired, status))
			if status == "rollbacked" {
				rolledBack = true
			}
		}
		if !rolledBack {
			break // the coordinator does not go on to earlier branches while this one keeps failing
		}
	}
	if os.Getenv("VERIF_DUMP") != "" {
		for _, e := range lab.Srv.Journal() {
			fmt.Fprintf(os.Stderr, "J c%d %-18s %-12s intx=%v err=%s | %.90s\n", e.Conn, e.Class, e.Table, e.InTx, e.Err, e.SQL)
		}
		fmt.Fprintf(os.Stderr, "CONNS %+v\n", lab.Srv.ConnStates())
	}
	t.Add("End", "sig", "end")
	return true
}
