// Driver for ATAsyncCommit.tla (C11): replays TLC-generated sequences of AT branch-commit requests
// (over two resources, two xids, two branch ids), transient connection / delete faults, a stalled
// database and a temporarily unknown resource against the real OnMessage -> rmBranchCommitProcessor
// -> ATSourceManager.BranchCommit -> AsyncWorker path, with the undo_log tables held by memsql.
//
// The AsyncWorker is a process global (InitAT, prometheus registration): one OS process per worker
// setting (env LIMIT, INTERVAL, CHAN, WORKERS, FANBUF).  A scenario after which the worker did not
// reach quiescence within the bound may have wedged the worker for good, so the rest of the run is
// continued in a fresh child process: the parent only supervises children and merges their traces.
package main

import (
	"bufio"
	"context"
	"database/sql"
	"encoding/json"
	"fmt"
	"math/rand"
	"os"
	"os/exec"
	"path/filepath"
	"runtime/pprof"
	"sort"
	"strconv"
	"strings"
	"sync"
	"time"

	"seata.apache.org/seata-go/pkg/datasource/sql/types"
	"seata.apache.org/seata-go/pkg/datasource/sql/undo"
	"seata.apache.org/seata-go/pkg/protocol/branch"
	"seata.apache.org/seata-go/pkg/protocol/message"

	"verif/harness/atlab"
	"verif/harness/common"
	"verif/harness/memsql"
	"verif/harness/tc"
	"verif/harness/trace"
)

type step struct {
	Op string `json:"op"` // req | connfail | delfail | hold | release | appear | settle
	X  int    `json:"x,omitempty"`
	B  int    `json:"b,omitempty"`
	R  string `json:"r,omitempty"`
	N  int    `json:"times,omitempty"` // delfail: how many DELETEs in a row fail (default 1)
}

type scenario struct {
	Late  []string `json:"late"` // resources that are not registered when the scenario starts
	Steps []step   `json:"steps"`
}

type setting struct {
	Limit, Chan, Workers, Fan int
	Interval                  time.Duration
}

func env(name, def string) string {
	if v := os.Getenv(name); v != "" {
		return v
	}
	return def
}

func envInt(name string, def int) int {
	n, err := strconv.Atoi(env(name, strconv.Itoa(def)))
	if err != nil {
		common.Fatal("bad %s: %v", name, err)
	}
	return n
}

func readSetting() setting {
	d, err := time.ParseDuration(env("INTERVAL", "30ms"))
	if err != nil {
		common.Fatal("bad INTERVAL: %v", err)
	}
	return setting{Limit: envInt("LIMIT", 10000), Chan: envInt("CHAN", 10000), Workers: envInt("WORKERS", 10),
		Fan: envInt("FANBUF", 1000), Interval: d}
}

func (s setting) name() string {
	return fmt.Sprintf("l%d-q%d-w%d-f%d", s.Limit, s.Chan, s.Workers, s.Fan)
}

// yaml is the documented way to configure the worker: the keys of sql.AsyncWorkerConfig under seata.async
func (s setting) yaml() string {
	return fmt.Sprintf("  async:\n    buffer_limit: %d\n    buffer_clean_interval: %s\n    receive_chan_size: %d\n"+
		"    commit_worker_count: %d\n    commit_worker_buffer_size: %d\n", s.Limit, s.Interval, s.Chan, s.Workers, s.Fan)
}

// ---------------------------------------------------------------------------------------------------

func main() {
	o := common.Parse()
	if o.Mode == "child" {
		child(o)
		return
	}
	if o.Mode == "probe" {
		probe(o)
		return
	}
	supervise(o)
}

// supervise runs children until every wanted scenario has been executed, then merges their traces
// (renumbered densely from the shard's trace base).
// withRandom appends the random long scenarios (seeded) to TLC's: many requests over the same few rows with
// failing DELETEs, stalls and releases in between - the volume that makes the pipeline's queues, retry list and
// batch buffers be written and read by different goroutines at the same time, which TLC's short sequences do not.
func withRandom(o *common.Opts, raws []json.RawMessage) []json.RawMessage {
	n := envInt("C11_RANDOM", 32)
	if o.Thorough() {
		n = envInt("C11_RANDOM", 48)
	}
	for j := 0; j < n; j++ {
		r := rand.New(rand.NewSource(o.Seed*7919 + int64(j) + 424242))
		var sc scenario
		held := map[string]bool{}
		if j%2 == 0 {
			// a pile-up: the database of one resource stalls, every row is asked for once, so that (with a batch
			// threshold and two or more fanout workers) several workers sit on a batch each; the DELETE of each of
			// them then fails once; when the stall ends they all fail and hand their batches back at the same moment.
			// Then the other resource.  Every row is requested exactly once: a context lost on the way is a row left.
			for _, res := range []string{"A", "B"} {
				sc.Steps = append(sc.Steps, step{Op: "hold", R: res}, step{Op: "delfail", R: res, N: 4})
				for _, xb := range r.Perm(4) {
					sc.Steps = append(sc.Steps, step{Op: "req", R: res, X: 1 + xb/2, B: 1 + xb%2})
				}
				sc.Steps = append(sc.Steps, step{Op: "release", R: res}, step{Op: "settle"})
			}
			sc.Late = []string{}
			b, _ := json.Marshal(sc)
			raws = append(raws, b)
			continue
		}
		for k := 60 + r.Intn(60); k > 0; k-- {
			res := []string{"A", "B"}[r.Intn(2)]
			switch p := r.Intn(100); {
			case p < 55:
				sc.Steps = append(sc.Steps, step{Op: "req", R: res, X: 1 + r.Intn(2), B: 1 + r.Intn(2)})
			case p < 70:
				sc.Steps = append(sc.Steps, step{Op: "delfail", R: res, N: 1 + r.Intn(4)})
			case p < 75:
				sc.Steps = append(sc.Steps, step{Op: "connfail", R: res})
			case p < 83:
				if !held[res] {
					held[res] = true
					sc.Steps = append(sc.Steps, step{Op: "hold", R: res})
				}
			case p < 93:
				if held[res] {
					held[res] = false
					sc.Steps = append(sc.Steps, step{Op: "release", R: res})
				}
			default:
				sc.Steps = append(sc.Steps, step{Op: "settle"})
			}
		}
		sc.Late = []string{}
		b, _ := json.Marshal(sc)
		raws = append(raws, b)
	}
	return raws
}

func supervise(o *common.Opts) {
	raws, err := trace.ReadScenarios(o.Scenarios)
	if err != nil {
		common.Fatal("%v", err)
	}
	raws = withRandom(o, raws)
	var want []int
	for i := range raws {
		if o.Want(i) {
			want = append(want, i)
		}
	}
	pos, gen, restarts := 0, 0, 0
	raceLeg := os.Getenv("C11_RACE") != ""
	var parts []string
	for pos < len(want) {
		part := fmt.Sprintf("%s.child%d", o.Out, gen)
		gen++
		args := []string{"-mode", "child", "-scenarios", o.Scenarios, "-out", part, "-tier", o.Tier,
			"-seed", strconv.FormatInt(o.Seed, 10), "-prop", o.Prop, "-shard", fmt.Sprintf("%d/%d", o.ShardK, o.ShardN)}
		idx := make([]string, 0, len(want)-pos)
		for _, i := range want[pos:] {
			idx = append(idx, strconv.Itoa(i))
		}
		args = append(args, "-only", strings.Join(idx, ","))
		cmd := exec.Command(os.Args[0], args...)
		cmd.Env = append(os.Environ(), fmt.Sprintf("C11_GEN=%d", gen))
		if raceLeg {
			// a binary built with -race: the detector's reports go to files and are turned into traces below
			cmd.Env = append(cmd.Env, "GORACE=log_path="+o.Out+".race halt_on_error=0 exitcode=0")
		}
		cmd.Stderr = os.Stderr
		out, err := cmd.Output()
		if err != nil {
			common.Fatal("child failed: %v\n%s", err, out)
		}
		done := -1
		for _, ln := range strings.Split(string(out), "\n") {
			if strings.HasPrefix(ln, "CHILD-DONE ") {
				fmt.Sscanf(ln, "CHILD-DONE %d", &done)
			}
		}
		if done <= 0 {
			common.Fatal("child made no progress:\n%s", out)
		}
		parts = append(parts, part)
		pos += done
		if pos < len(want) {
			restarts++
		}
		if gen > len(want)+2 {
			common.Fatal("too many children")
		}
	}
	// merge
	w, err := os.Create(o.Out)
	if err != nil {
		common.Fatal("%v", err)
	}
	bw := bufio.NewWriterSize(w, 1<<20)
	next := o.TraceBase()
	var infos []trace.Info
	for _, p := range parts {
		remap := map[int]int{}
		f, err := os.Open(p)
		if err != nil {
			common.Fatal("%v", err)
		}
		sc := bufio.NewScanner(f)
		sc.Buffer(make([]byte, 1<<20), 1<<26)
		for sc.Scan() {
			var e map[string]interface{}
			if err := json.Unmarshal(sc.Bytes(), &e); err != nil {
				common.Fatal("%s: %v", p, err)
			}
			t := int(e["t"].(float64))
			if _, ok := remap[t]; !ok {
				remap[t] = next
				next++
			}
			e["t"] = remap[t]
			b, _ := json.Marshal(e)
			bw.Write(b)
			bw.WriteByte('\n')
		}
		f.Close()
		var is []trace.Info
		b, err := os.ReadFile(p + ".idx.json")
		if err != nil {
			common.Fatal("%v", err)
		}
		if err := json.Unmarshal(b, &is); err != nil {
			common.Fatal("%v", err)
		}
		for _, i := range is {
			if nt, ok := remap[i.T]; ok {
				i.T = nt
				infos = append(infos, i)
			}
		}
		os.Remove(p)
		os.Remove(p + ".idx.json")
	}
	if raceLeg {
		// every distinct data-race report of the run is a trace of its own, made of one event no specification
		// has an action for: the worker's queues and buffers are shared by the run loop, the fanout workers and
		// the request goroutines, and "no branch is lost" does not survive unsynchronised access to them
		for _, rs := range common.RaceReports(o.Out + ".race") {
			for k, ev := range []map[string]interface{}{
				{"ev": "Init", "rows": []interface{}{}, "known": []interface{}{}, "setting": readSetting().name(), "sig": "race-report"},
				{"ev": "Race", "where": rs, "sig": "race:" + rs},
			} {
				ev["t"], ev["k"], ev["n"] = next, k+1, 2
				b, _ := json.Marshal(ev)
				bw.Write(b)
				bw.WriteByte('\n')
			}
			infos = append(infos, trace.Info{T: next, Class: "race-report", Scenario: map[string]interface{}{"i": -1, "race": rs}})
			next++
		}
		if files, _ := filepath.Glob(o.Out + ".race.*"); os.Getenv("VERIF_RACE_DUMP") == "" {
			for _, f := range files {
				os.Remove(f)
			}
		}
	}
	if err := bw.Flush(); err != nil {
		common.Fatal("%v", err)
	}
	w.Close()
	b, _ := json.Marshal(infos)
	if err := os.WriteFile(o.Out+".idx.json", b, 0o644); err != nil {
		common.Fatal("%v", err)
	}
	fmt.Printf("DRIVER-OK traces=%d scenarios=%d restarts=%d setting=%s\n", len(infos), len(raws), restarts, readSetting().name())
}

// ---------------------------------------------------------------------------------------------------

const (
	xidBase = "10.0.0.1:8091:70" // xid of abstract x is xidBase + x
	bidBase = 10                 // branch id of abstract b is bidBase + b
)

func xidOf(x int) string { return fmt.Sprintf("%s%d", xidBase, x) }
func bidOf(b int) int64  { return int64(bidBase + b) }

type row struct {
	R string
	X string
	B int64
}

func (r row) json() []interface{} { return []interface{}{r.R, r.X, r.B} }

type resource struct {
	name  string
	srv   *memsql.Server
	rid   string
	db    *sql.DB
	ids   map[string]row // undo_log.id (journal key text) -> row
	gate  chan struct{}
	gmu   sync.Mutex
	known bool
}

type world struct {
	lab   *atlab.Lab
	set   setting
	bound time.Duration
	idle  time.Duration // silence after which the final wait gives up early
	serno int
}

func child(o *common.Opts) {
	set := readSetting()
	cfg := tc.DefaultConfig()
	cfg.Extra = set.yaml()
	gen := env("C11_GEN", "0")
	lab := atlab.Open(cfg, fmt.Sprintf("c11base-%d-%s", o.ShardK, gen))
	wd := &world{lab: lab, set: set, bound: time.Duration(envInt("BOUND_MS", 5000)) * time.Millisecond}
	wd.idle = 30 * set.Interval
	if min := time.Duration(envInt("IDLE_MS", 600)) * time.Millisecond; wd.idle < min {
		wd.idle = min
	}
	raws, err := trace.ReadScenarios(o.Scenarios)
	if err != nil {
		common.Fatal("%v", err)
	}
	raws = withRandom(o, raws)
	w, err := trace.NewWriter(o.Out)
	if err != nil {
		common.Fatal("%v", err)
	}
	done := 0
	for i, raw := range raws {
		if !o.Want(i) {
			continue
		}
		var sc scenario
		if err := json.Unmarshal(raw, &sc); err != nil {
			common.Fatal("scenario %d: %v", i, err)
		}
		cls := class(set, sc)
		t := w.Begin(map[string]interface{}{"i": i, "sc": sc, "setting": set.name()}, cls)
		ok := wd.run(t, sc, cls, fmt.Sprintf("%d-%s-%d", o.ShardK, gen, i), o.Rand(int64(i)))
		t.Close()
		done++
		if !ok {
			break // the worker may be wedged: the supervisor continues in a fresh process
		}
	}
	if err := w.Close(); err != nil {
		common.Fatal("%v", err)
	}
	fmt.Printf("CHILD-DONE %d\n", done)
}

// class gives the class coordinates of a scenario (they become part of the signature of a rejection)
func class(set setting, sc scenario) string {
	nreq, conn, del, hold := 0, 0, 0, 0
	res := map[string]bool{}
	for _, s := range sc.Steps {
		switch s.Op {
		case "req":
			nreq++
			res[s.R] = true
		case "connfail":
			conn++
		case "delfail":
			del++
		case "hold":
			hold++
		}
	}
	if nreq > 8 {
		return fmt.Sprintf("set=%s:long", set.name()) // the random long scenarios: one class
	}
	return fmt.Sprintf("set=%s:reqs=%d:res=%d:conn=%d:del=%d:hold=%d:late=%d", set.name(), nreq, len(res), conn, del, hold, len(sc.Late))
}

func (wd *world) newResource(name, tag string) *resource {
	r := &resource{name: name, ids: map[string]row{}}
	host := fmt.Sprintf("c11-%s-%s", strings.ToLower(name), tag)
	r.srv = memsql.NewServer(host)
	r.srv.SetSeqSource(tc.NextSeq)
	r.srv.MustExec(atlab.UndoDDL)
	dsn := r.srv.DSN("testdb")
	r.rid = dsn
	if i := strings.Index(dsn, "?"); i > 0 {
		r.rid = dsn[:i]
	}
	return r
}

// register opens the proxied database: this is what makes the resource known to the resource manager
func (wd *world) register(r *resource) {
	before := len(wd.lab.Coord.Log())
	db, err := sql.Open("seata-at-memsql", r.srv.DSN("testdb"))
	if err != nil {
		common.Fatal("open %s: %v", r.name, err)
	}
	r.db = db
	r.known = true
	// cross-check the resource id the client announced to the coordinator
	for _, rec := range wd.lab.Coord.Log()[before:] {
		if req, ok := rec.Body.(message.RegisterRMRequest); ok {
			if req.ResourceIds != r.rid {
				common.Fatal("resource id mismatch: client registered %q, driver computed %q", req.ResourceIds, r.rid)
			}
		}
	}
}

func (r *resource) populate() []row {
	var rows []row
	id := 0
	add := func(x string, b int64) {
		id++
		r.srv.MustExec(fmt.Sprintf("INSERT INTO undo_log (id, branch_id, xid, context, rollback_info, log_status, log_created, log_modified) "+
			"VALUES (%d, %d, '%s', 'serializer=json', 'x', 0, NOW(6), NOW(6))", id, b, x))
		rw := row{r.name, x, b}
		r.ids[strconv.Itoa(id)] = rw
		rows = append(rows, rw)
	}
	for x := 1; x <= 2; x++ {
		for b := 1; b <= 2; b++ {
			add(xidOf(x), bidOf(b))
		}
	}
	// decoys outside the request space: ids that extend a requested id, and the joined id lists a
	// wrongly bound IN (...) list would compare against
	add(xidOf(1)+"0", bidOf(1))
	add(xidOf(1), bidOf(1)*10)
	add(xidOf(1)+","+xidOf(2), bidOf(1))
	add(xidOf(2), bidOf(2)*10+1)
	return rows
}

func (r *resource) remaining() []row {
	var out []row
	for _, m := range r.srv.Snapshot("undo_log")["undo_log"] {
		b, _ := strconv.ParseInt(fmt.Sprint(m["branch_id"]), 10, 64)
		out = append(out, row{r.name, fmt.Sprint(m["xid"]), b})
	}
	return out
}

func rowsJSON(rs []row) [][]interface{} {
	sort.Slice(rs, func(i, j int) bool {
		if rs[i].R != rs[j].R {
			return rs[i].R < rs[j].R
		}
		if rs[i].X != rs[j].X {
			return rs[i].X < rs[j].X
		}
		return rs[i].B < rs[j].B
	})
	out := make([][]interface{}, 0, len(rs))
	for _, r := range rs {
		out = append(out, r.json())
	}
	return out
}

// run executes one scenario; false = quiescence was not reached within the bound
func (wd *world) run(t *trace.T, sc scenario, cls, tag string, rnd *rand.Rand) bool {
	lab := wd.lab
	res := map[string]*resource{}
	var all []row
	late := map[string]bool{}
	for _, l := range sc.Late {
		late[l] = true
	}
	var known []string
	for _, name := range []string{"A", "B"} {
		r := wd.newResource(name, tag)
		res[name] = r
		all = append(all, r.populate()...)
		rr := r
		r.srv.SetObserver(func(e memsql.Entry) {
			if e.Table != "undo_log" || e.Class != "delete" {
				return
			}
			var keys []row
			for _, k := range e.Keys {
				if rw, ok := rr.ids[k]; ok {
					keys = append(keys, rw)
				} else {
					keys = append(keys, row{rr.name, "?id=" + k, 0})
				}
			}
			t.Add("Delete", "r", rr.name, "keys", rowsJSON(keys), "failed", e.Err != "", "sig", cls)
		})
		r.srv.SetGate(func(e *memsql.Entry) error {
			if e.Table != "undo_log" || e.Class != "delete" {
				return nil
			}
			rr.gmu.Lock()
			g := rr.gate
			rr.gmu.Unlock()
			if g != nil {
				<-g
			}
			return nil
		})
		if !late[name] {
			wd.register(r)
			known = append(known, name)
		}
	}
	t.Add("Init", "rows", rowsJSON(all), "known", known, "setting", wd.set.name(), "sig", cls)

	var mu sync.Mutex
	requested := map[row]bool{}
	outstanding := 0
	var wg sync.WaitGroup
	release := func(r *resource) {
		r.gmu.Lock()
		if r.gate != nil {
			close(r.gate)
			r.gate = nil
		}
		r.gmu.Unlock()
	}
	quiet := func() bool {
		mu.Lock()
		out := outstanding
		mu.Unlock()
		if out > 0 {
			return false
		}
		for _, r := range res {
			if !r.known {
				continue
			}
			for _, rw := range r.remaining() {
				mu.Lock()
				req := requested[rw]
				mu.Unlock()
				if req {
					return false
				}
			}
		}
		return true
	}
	// activity: anything the worker does that the stand-ins can see (statements, connection faults, replies)
	replies := 0
	activity := func() int {
		mu.Lock()
		n := replies
		mu.Unlock()
		for _, r := range res {
			n += len(r.srv.Journal()) + r.srv.FaultsFired()
		}
		return n
	}
	// waitQuiet waits until everything requested so far is answered and deleted.  It gives up after d, or
	// earlier when nothing at all has happened for idle (0 = never earlier): the worker retries at least
	// once per flush interval, so a long silence with work outstanding means it is stuck or lost the work.
	waitQuiet := func(d, idle time.Duration) bool {
		end := time.Now().Add(d)
		last, lastAt := activity(), time.Now()
		for {
			if quiet() {
				return true
			}
			now := time.Now()
			if a := activity(); a != last {
				last, lastAt = a, now
			}
			if now.After(end) || (idle > 0 && now.Sub(lastAt) > idle) {
				return quiet()
			}
			time.Sleep(10 * time.Millisecond)
		}
	}
	replyWait := 4*wd.set.Interval + 100*time.Millisecond
	for _, st := range sc.Steps {
		r := res[st.R]
		switch st.Op {
		case "req":
			// seeded jitter: the same request sequence meets the ticker at different phases, so that the
			// batches the run loop forms differ from seed to seed
			if rnd.Intn(3) == 0 {
				time.Sleep(time.Duration(rnd.Int63n(int64(3 * wd.set.Interval / 2))))
			}
			rw := row{st.R, xidOf(st.X), bidOf(st.B)}
			mu.Lock()
			requested[rw] = true
			outstanding++
			mu.Unlock()
			t.Add("Req", "row", rw.json(), "sig", cls)
			got := make(chan struct{})
			wg.Add(1)
			go func() {
				defer wg.Done()
				// the stand-in waits for the answer for as long as the scenario can keep the request at the door (a
				// stalled database blocks the pipeline until the scenario releases it) plus the final bound
				status, ok := lab.Coord.BranchCommit(lab.Sess, rw.X, rw.B, branch.BranchTypeAT, r.rid, nil,
					wd.bound+5*time.Second+time.Duration(len(sc.Steps))*replyWait)
				if ok {
					t.Add("Reply", "row", rw.json(), "status", atlab.StatusName(status, ok), "sig", cls)
					mu.Lock()
					outstanding--
					replies++
					mu.Unlock()
				}
				close(got)
			}()
			select {
			case <-got:
			case <-time.After(replyWait):
				// the request is stuck at the door (queue full): go on, the reply is recorded when it comes
			}
		case "connfail":
			r.srv.AddFault(memsql.Fault{OnConnect: true})
			t.Add("Arm", "what", "conn", "r", st.R, "sig", cls)
		case "delfail":
			r.srv.AddFault(memsql.Fault{Class: "delete", Table: "undo_log", Times: st.N})
			t.Add("Arm", "what", "delete", "r", st.R, "sig", cls)
		case "hold":
			r.gmu.Lock()
			if r.gate == nil {
				r.gate = make(chan struct{})
			}
			r.gmu.Unlock()
			t.Add("Arm", "what", "hold", "r", st.R, "sig", cls)
		case "release":
			release(r)
			t.Add("Release", "r", st.R, "sig", cls)
		case "appear":
			if !r.known {
				wd.register(r)
				t.Add("Appear", "r", st.R, "sig", cls)
			}
		case "settle":
			waitQuiet(6*wd.set.Interval+100*time.Millisecond, 0)
		}
	}
	// failures are transient and the database is eventually reachable: nothing stays held
	for _, name := range []string{"A", "B"} {
		if res[name].gate != nil {
			release(res[name])
			t.Add("Release", "r", name, "sig", cls)
		}
	}
	within := waitQuiet(wd.bound, wd.idle)
	if !within && os.Getenv("C11_DEBUG") != "" {
		_ = pprof.Lookup("goroutine").WriteTo(os.Stderr, 1) // debugging aid: where is everybody
	}
	if within {
		// let a spurious late delete show itself
		time.Sleep(2*wd.set.Interval + 20*time.Millisecond)
	}
	var remaining []row
	var knownNow []string
	for _, name := range []string{"A", "B"} {
		remaining = append(remaining, res[name].remaining()...)
		if res[name].known {
			knownNow = append(knownNow, name)
		}
	}
	mu.Lock()
	unanswered := outstanding
	mu.Unlock()
	t.Add("Final", "remaining", rowsJSON(remaining), "known", knownNow, "withinBound", within, "unanswered", unanswered, "sig", cls)
	for _, r := range res {
		r.srv.SetObserver(nil)
	}
	return within
}

// probe calls BatchDeleteUndoLog-relevant paths directly and prints what happens (not part of the check)
func probe(o *common.Opts) {
	set := readSetting()
	cfg := tc.DefaultConfig()
	cfg.Extra = set.yaml()
	lab := atlab.Open(cfg, "c11probe")
	wd := &world{lab: lab, set: set}
	r := wd.newResource("A", "probe")
	r.populate()
	wd.register(r)
	bare, err := sql.Open("memsql", r.srv.DSN("testdb"))
	if err != nil {
		common.Fatal("%v", err)
	}
	mgr, err := undo.GetUndoLogManager(types.DBTypeMySQL)
	if err != nil {
		common.Fatal("%v", err)
	}
	conn, err := bare.Conn(context.Background())
	if err != nil {
		common.Fatal("%v", err)
	}
	fmt.Println("PROBE rows before:", len(r.remaining()))
	err = mgr.BatchDeleteUndoLog([]string{xidOf(1)}, []int64{bidOf(1)}, conn)
	fmt.Println("PROBE BatchDeleteUndoLog n=1:", err, "rows:", len(r.remaining()))
	err = mgr.BatchDeleteUndoLog([]string{xidOf(1), xidOf(2)}, []int64{bidOf(1), bidOf(2)}, conn)
	fmt.Println("PROBE BatchDeleteUndoLog n=2:", err, "rows:", len(r.remaining()))
	for _, e := range r.srv.Journal() {
		fmt.Printf("  journal c%d %s keys=%v err=%q | %s | %v\n", e.Conn, e.Class, e.Keys, e.Err, e.SQL, e.Args)
	}
	fmt.Println("DRIVER-OK probe")
}
